//! Executes a `RunSpec` against real gecs worlds, keeps the reference model in step, and
//! evaluates the oracles after every operation. Pure function of (spec, build, code under test).

use std::collections::{BTreeMap, BTreeSet};
use std::panic::AssertUnwindSafe;

use gecs::prelude::{EntityAny, EntityDirectAny};

use crate::comps::{kind_has_id, payload_mask, Obs};
use crate::model::*;
use crate::ops::*;
use crate::rt::{self, Injected};
use crate::spec::*;

pub const MAX_CAP: usize = 1 << 24;

#[derive(Clone, Copy, Debug)]
pub struct BuildCfg {
    pub wrapping: bool,
    pub events: bool,
    pub debug: bool,
    pub hooks: bool,
}

pub fn build_cfg() -> BuildCfg {
    BuildCfg {
        wrapping: cfg!(feature = "wrapping_version"),
        events: cfg!(feature = "events"),
        debug: cfg!(debug_assertions),
        hooks: cfg!(gecs_verif),
    }
}

#[derive(Debug)]
pub struct Caught {
    pub injected: Option<Injected>,
    pub msg: String,
}

pub fn catch<R>(f: impl FnOnce() -> R) -> Result<R, Caught> {
    match std::panic::catch_unwind(AssertUnwindSafe(f)) {
        Ok(r) => Ok(r),
        Err(p) => {
            if let Some(i) = p.downcast_ref::<Injected>() {
                Err(Caught { injected: Some(*i), msg: format!("injected {:?}", i) })
            } else if let Some(s) = p.downcast_ref::<&str>() {
                Err(Caught { injected: None, msg: s.to_string() })
            } else if let Some(s) = p.downcast_ref::<String>() {
                Err(Caught { injected: None, msg: s.clone() })
            } else {
                Err(Caught { injected: None, msg: "<non-string panic payload>".to_string() })
            }
        }
    }
}

pub fn is_clean_forged_panic(msg: &str) -> bool {
    msg.contains("invalid entity type")
        || msg.contains("invalid entity conversion")
        || msg.contains("invalid entity handle")
        || msg.contains("archetype_id() == A::ARCHETYPE_ID")
}

pub fn is_borrow_panic(msg: &str) -> bool {
    msg.contains("already") && msg.contains("borrowed")
}

/// A generation counter "would overflow": the documented panic is acceptable whenever a counter
/// is within one increment step of its maximum (the step size is policy, not property).
pub fn near_max(v: u64) -> bool {
    v >= u32::MAX as u64 - 255
}

pub fn is_overflow_panic(msg: &str) -> bool {
    msg.contains("slot version overflow") || msg.contains("arch version overflow")
}

#[inline]
pub fn mix(a: u64, b: u64) -> u64 {
    let mut z = a.wrapping_add(b.wrapping_mul(0x9E3779B97F4A7C15)).wrapping_add(0x632BE59BD9B4E019);
    z = (z ^ (z >> 30)).wrapping_mul(0xBF58476D1CE4E5B9);
    z = (z ^ (z >> 27)).wrapping_mul(0x94D049BB133111EB);
    z ^ (z >> 31)
}

#[derive(Default, Clone, Debug)]
pub struct Stats {
    pub c: BTreeMap<&'static str, u64>,
}

impl Stats {
    #[inline]
    pub fn inc(&mut self, k: &'static str) {
        *self.c.entry(k).or_insert(0) += 1;
    }
    #[inline]
    pub fn add(&mut self, k: &'static str, n: u64) {
        *self.c.entry(k).or_insert(0) += n;
    }
    pub fn get(&self, k: &str) -> u64 {
        self.c.get(k).copied().unwrap_or(0)
    }
    pub fn merge(&mut self, o: &Stats) {
        for (k, v) in &o.c {
            *self.c.entry(k).or_insert(0) += v;
        }
    }
}

/// A tolerated, exactly-characterised deviation (see known_findings.json). The run goes on with
/// the model following what the real code did.
#[derive(Clone, Debug)]
pub struct Finding {
    pub prop: &'static str,
    pub clause: &'static str,
    pub detail: String,
}

pub struct Engine<W: WorldSpec> {
    pub ws: Vec<Option<W>>,
    pub ms: Vec<Model>,
    pub cur: usize,
    pub book: Vec<HEntry>,
    pub book_idx: BTreeMap<(u8, Bits, usize, u64, u64), usize>,
    pub step: u32,
    pub cfg: BuildCfg,
    pub stats: Stats,
    pub findings: Vec<Finding>,
    /// values that an injected fault is allowed to have leaked: (kind, id)
    pub leak_ok: BTreeSet<(u8, u32)>,
    pub leak_ok_noid: [u64; rt::NKINDS],
    pub faulted: bool,
    pub touched: Vec<usize>,
    pub audit_rot: usize,
    pub heavy_audit: bool,
    pub scan_every: u32,
    /// bulk operations put only a sample of the handles they issue into the book
    pub book_skip: bool,
    /// observed direct-handle maps, keyed by (world, archetype, removals, creations)
    pub dm_cache: BTreeMap<(usize, usize, u64, u64), BTreeMap<Bits, Bits>>,
    pub state_hashes: BTreeSet<u64>,
    /// distinct (operation in flight, callback index bucket, scheduler choice at that callback)
    pub interleavings: BTreeSet<u64>,
    /// (op index, kind, count) of the yield points each operation reached (for fault enumeration)
    pub yields: Vec<(u32, u8, u32)>,
}

pub fn vio(prop: &'static str, clause: &'static str, detail: String) {
    rt::violate(prop, clause, detail);
}

pub fn arch_of_byte<W: WorldSpec>(b: u8) -> Option<usize> {
    W::archs().iter().position(|d| d.info().id == b)
}

pub fn payloads_for<W: WorldSpec>(ai: usize, p: u64) -> Vec<u64> {
    W::archs()[ai].info().kinds.iter().enumerate().map(|(i, k)| mix(p, i as u64) & payload_mask(*k)).collect()
}

/// The observations a freshly constructed component tuple will carry (ids are allocated
/// sequentially per kind by `rt`, so the model can predict them before the call).
pub fn expect_cols<W: WorldSpec>(ai: usize, payloads: &[u64]) -> Vec<Obs> {
    let kinds = W::archs()[ai].info().kinds;
    rt::with(|r| {
        kinds
            .iter()
            .enumerate()
            .map(|(i, k)| Obs { kind: *k, id: if kind_has_id(*k) { r.vals[*k as usize].len() as u32 } else { 0 }, payload: payloads[i] })
            .collect()
    })
}

impl<W: WorldSpec> Engine<W> {
    pub fn new(caps: &[usize]) -> Result<Self, Caught> {
        let n = W::archs().len();
        let caps: Vec<usize> = (0..n).map(|i| caps.get(i).copied().unwrap_or(0)).collect();
        let w = catch(|| W::with_caps(&caps))?;
        let mut e = Engine {
            ws: vec![Some(w)],
            ms: vec![Model::new(&caps)],
            cur: 0,
            book: Vec::new(),
            book_idx: BTreeMap::new(),
            step: 0,
            cfg: build_cfg(),
            stats: Stats::default(),
            findings: Vec::new(),
            leak_ok: BTreeSet::new(),
            leak_ok_noid: [0; rt::NKINDS],
            faulted: false,
            touched: Vec::new(),
            audit_rot: 0,
            heavy_audit: false,
            scan_every: 4,
            book_skip: false,
            dm_cache: BTreeMap::new(),
            state_hashes: BTreeSet::new(),
            interleavings: BTreeSet::new(),
            yields: Vec::new(),
        };
        // with_capacity(n): capacity() >= n
        for (ai, d) in W::archs().iter().enumerate() {
            let c = d.capacity(e.ws[0].as_ref().unwrap());
            if c < caps[ai] {
                vio("C12", "with-capacity", format!("with_capacity({}) gave capacity() {} for {}", caps[ai], c, d.info().name));
            }
            e.ms[0].archs[ai].cap = c;
        }
        Ok(e)
    }

    pub fn alive_worlds(&self) -> Vec<usize> {
        (0..self.ws.len()).filter(|i| self.ws[*i].is_some()).collect()
    }

    pub fn finding(&mut self, prop: &'static str, clause: &'static str, detail: String) {
        if self.findings.len() < 8 {
            self.findings.push(Finding { prop, clause, detail });
        }
        self.stats.inc("finding");
    }

    // ---------------------------------------------------------------- handle book
    pub fn add_entry(&mut self, e: HEntry) -> usize {
        let (tag, o, r, c) = match (&e.kind, e.natives.first()) {
            (HKind::Ind(_), Some(n)) => (0u8, n.world, 0, 0),
            (HKind::Ind(_), None) => (1u8, usize::MAX, 0, 0),
            (HKind::Dir(_), Some(n)) => (2u8, n.world, n.removals, n.creations),
            (HKind::Dir(_), None) => (3u8, usize::MAX, 0, 0),
        };
        let key = (tag, e.bits, o, r, c);
        if let Some(i) = self.book_idx.get(&key) {
            let i = *i;
            self.touched.push(i);
            return i;
        }
        if self.book.len() >= 320 && (e.is_direct() || e.forged) {
            // keep the book bounded: recycle the oldest direct/forged entry of the same flavour
            if let Some(i) = self.book.iter().position(|x| (x.is_direct() || x.forged) && x.is_direct() == e.is_direct()) {
                self.book_idx.retain(|_, v| *v != i);
                self.book[i] = e;
                self.book_idx.insert(key, i);
                self.touched.push(i);
                return i;
            }
        }
        self.book.push(e);
        let i = self.book.len() - 1;
        self.book_idx.insert(key, i);
        self.touched.push(i);
        i
    }

    pub fn add_ind(&mut self, bits: Bits, world: usize) -> usize {
        let any = any_from_bits(bits).expect("sim: zero version from create");
        let step = self.step;
        self.add_entry(HEntry {
            kind: HKind::Ind(any),
            bits,
            arch_byte: any.archetype_id(),
            forged: false,
            natives: vec![Native { world, removals: 0, creations: 0, ver: 0 }],
            target: bits,
            step,
        })
    }

    pub fn add_dir(&mut self, d: EntityDirectAny, target: Bits, world: usize, removals: u64, creations: u64, ver: u64) -> usize {
        let step = self.step;
        self.add_entry(HEntry {
            kind: HKind::Dir(d),
            bits: dbits(d),
            arch_byte: d.archetype_id(),
            forged: false,
            natives: vec![Native { world, removals, creations, ver }],
            target,
            step,
        })
    }

    pub fn add_forged(&mut self, kind: HKind) -> usize {
        let (bits, arch_byte) = match kind {
            HKind::Ind(a) => (abits(a), a.archetype_id()),
            HKind::Dir(d) => (dbits(d), d.archetype_id()),
        };
        let step = self.step;
        self.add_entry(HEntry { kind, bits, arch_byte, forged: true, natives: Vec::new(), target: 0, step })
    }

    /// Resolves a selector against the book as seen from the current world.
    pub fn select(&self, s: Sel) -> Option<usize> {
        if self.book.is_empty() {
            return None;
        }
        let cur = self.cur;
        let m = &self.ms[cur];
        let pick = |f: &dyn Fn(&HEntry) -> bool| -> Option<usize> {
            let v: Vec<usize> = self.book.iter().enumerate().filter(|(_, e)| f(e)).map(|(i, _)| i).collect();
            if v.is_empty() {
                None
            } else {
                Some(v[s.n as usize % v.len()])
            }
        };
        let r = match s.class % SEL_CLASSES {
            SEL_LIVE => pick(&|e| !e.is_direct() && !e.forged && e.native_in(cur).is_some() && m.ents.contains_key(&e.bits)),
            SEL_DEAD => pick(&|e| !e.is_direct() && !e.forged && e.native_in(cur).is_some() && !m.ents.contains_key(&e.bits)),
            SEL_DIRECT => pick(&|e| e.is_direct() && !e.forged && e.native_in(cur).is_some()),
            SEL_DIRECT_FRESH => pick(&|e| {
                e.is_direct()
                    && !e.forged
                    && e.native_in(cur).map_or(false, |n| {
                        arch_of_byte::<W>(e.arch_byte).map_or(false, |ai| m.archs[ai].removals == n.removals)
                    })
            }),
            SEL_RECENT => {
                let k = self.book.len().min(4);
                Some(self.book.len() - 1 - (s.n as usize % k))
            }
            SEL_FOREIGN => pick(&|e| e.native_in(cur).is_none() && !e.forged),
            SEL_FORGED => pick(&|e| e.forged),
            _ => None,
        };
        r.or_else(|| Some(s.n as usize % self.book.len()))
    }

    /// A genuine handle of archetype `ai` to seed the overwrite forgery (`Key::TO`).
    pub fn seed_for(&self, ai: usize) -> Option<EntityAny> {
        let id = W::archs()[ai].info().id;
        self.book.iter().find_map(|e| match e.kind {
            HKind::Ind(a) if !e.forged && e.arch_byte == id => Some(a),
            _ => None,
        })
    }

    // ---------------------------------------------------------------- model lookup
    /// What the properties demand when `entry` is presented to world `wid` as `key` on archetype `ta`.
    pub fn expect(&mut self, wid: usize, ei: usize, key: Key, ta: usize) -> Exp {
        let e = self.book[ei].clone();
        let native = e.native_in(wid);
        let byte_ai = arch_of_byte::<W>(e.arch_byte);
        let ta_matches = byte_ai == Some(ta);
        let typed = key.is_typed();
        let overwrite = matches!(key, Key::TO(..));
        let cross_typed = typed && !ta_matches;
        let panic_ok = native.is_none() || e.forged || cross_typed || overwrite;
        if !ta_matches {
            return Exp { acc: Tri::No, target: None, panic_ok, cross_typed };
        }
        match e.kind {
            HKind::Ind(_) => match self.ms[wid].ents.get(&e.bits) {
                Some(r) if r.arch == ta => Exp { acc: Tri::Yes, target: Some(e.bits), panic_ok, cross_typed },
                _ => Exp { acc: Tri::No, target: None, panic_ok, cross_typed },
            },
            HKind::Dir(d) => {
                if let (Some(n), false) = (native, e.forged) {
                    let am = &self.ms[wid].archs[ta];
                    if am.removals != n.removals {
                        if self.cfg.wrapping && am.ver == n.ver {
                            // wrapping_version: the archetype version came round to the value this
                            // ancient handle carries; it may match again (documented), by bits
                            return match self.direct_lookup(wid, ta, dbits(d)) {
                                Some(t) => Exp { acc: Tri::Maybe, target: Some(t), panic_ok: true, cross_typed },
                                None => Exp { acc: Tri::No, target: None, panic_ok: true, cross_typed },
                            };
                        }
                        Exp { acc: Tri::No, target: None, panic_ok, cross_typed }
                    } else if am.creations == n.creations {
                        Exp { acc: Tri::Yes, target: Some(e.target), panic_ok, cross_typed }
                    } else {
                        Exp { acc: Tri::Maybe, target: Some(e.target), panic_ok, cross_typed }
                    }
                } else {
                    // foreign / forged direct value: may only be accepted when it is bit-identical
                    // to the direct handle the world currently issues for some live entity
                    match self.direct_lookup(wid, ta, dbits(d)) {
                        Some(t) => Exp { acc: Tri::Maybe, target: Some(t), panic_ok, cross_typed },
                        None => Exp { acc: Tri::No, target: None, panic_ok, cross_typed },
                    }
                }
            }
        }
    }

    /// Observed `to_direct(e)` for every live entity of one archetype (direct bits -> entity bits).
    pub fn direct_lookup(&mut self, wid: usize, ai: usize, db: Bits) -> Option<Bits> {
        let ck = (wid, ai, self.ms[wid].archs[ai].removals, self.ms[wid].archs[ai].creations);
        if !self.dm_cache.contains_key(&ck) {
            let out = self.direct_map_uncached(wid, ai);
            if self.dm_cache.len() > 8 {
                self.dm_cache.clear();
            }
            self.dm_cache.insert(ck, out);
        }
        self.dm_cache[&ck].get(&db).copied()
    }

    pub fn direct_map(&mut self, wid: usize, ai: usize) -> BTreeMap<Bits, Bits> {
        let ck = (wid, ai, self.ms[wid].archs[ai].removals, self.ms[wid].archs[ai].creations);
        if let Some(m) = self.dm_cache.get(&ck) {
            return m.clone();
        }
        let out = self.direct_map_uncached(wid, ai);
        if self.dm_cache.len() > 8 {
            self.dm_cache.clear();
        }
        self.dm_cache.insert(ck, out.clone());
        out
    }

    fn direct_map_uncached(&mut self, wid: usize, ai: usize) -> BTreeMap<Bits, Bits> {
        let mut out = BTreeMap::new();
        let w = match self.ws[wid].as_ref() {
            Some(w) => w,
            None => return out,
        };
        let d = W::archs()[ai];
        for b in self.ms[wid].live_of(ai) {
            if let Some(any) = any_from_bits(b) {
                if let Ok(Some(dd)) = catch(|| d.to_direct(w, Lvl::Arch, Key::T(any))) {
                    out.insert(dbits(dd), b);
                }
            }
        }
        out
    }

    pub fn key_for(&self, ei: usize, typed: bool, over: bool, ta: usize) -> Key {
        match self.book[ei].kind {
            HKind::Ind(a) => {
                if typed {
                    if over {
                        match self.seed_for(ta) {
                            Some(s) => Key::TO(a, s),
                            None => Key::T(a),
                        }
                    } else {
                        Key::T(a)
                    }
                } else {
                    Key::A(a)
                }
            }
            HKind::Dir(d) => {
                if typed {
                    Key::DT(d)
                } else {
                    Key::DA(d)
                }
            }
        }
    }

    /// Classifies a match through a typed key whose archetype byte is not the archetype's:
    /// the documented "logic error" of unchecked conversions (finding, not alarm) when the
    /// entity reached sits at exactly the forged slot+generation (resp. dense index+version).
    pub fn cross_typed_match(&mut self, wid: usize, ei: usize, ta: usize, reached: Bits, what: &str) {
        let e = self.book[ei].clone();
        let ok = match e.kind {
            HKind::Ind(_) => (reached >> 40) == (e.bits >> 40) && (reached as u32) == (e.bits as u32) && self.ms[wid].ents.get(&reached).map_or(false, |r| r.arch == ta),
            HKind::Dir(_) => self.ms[wid].ents.get(&reached).map_or(false, |r| r.arch == ta),
        };
        if ok {
            self.finding(
                "C03",
                "typed-key-archetype-byte-ignored",
                format!("{}: typed key with archetype byte {} used on {} matched entity {:#x} by position+generation", what, e.arch_byte, W::archs()[ta].info().name, reached),
            );
        } else {
            vio("C03", "accidental-match", format!("{}: cross-archetype typed key {:#x} reached {:#x} which is not at the forged position/generation", what, e.bits, reached));
        }
    }
}
