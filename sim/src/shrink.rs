//! Minimisation of a failing trace (delta debugging over steps, then per-step simplification)
//! and the replay file.

use crate::batch::{opts_for, run_any, Failure};
use crate::ops::*;
use crate::spec::*;
use crate::sx::ToSx;

pub fn pretty(s: &RunSpec) -> String {
    let mut out = String::new();
    out.push_str("(RunSpec\n");
    out.push_str(&format!(" (world {})\n", s.world));
    out.push_str(&format!(" (caps {})\n", s.caps.to_sx()));
    out.push_str(" (ops (v\n");
    for op in &s.ops {
        out.push_str(&format!("   {}\n", op.to_sx()));
    }
    out.push_str(" ))\n");
    out.push_str(&format!(" (crash_after {})\n", s.crash_after.to_sx()));
    out.push_str(")\n");
    out
}

fn class_of(prop: &str, spec: &RunSpec) -> Option<(String, String, String)> {
    let r = run_any(spec, opts_for(prop));
    r.violations.first().map(|v| (v.prop.to_string(), v.clause.to_string(), v.detail.clone()))
}

fn simplifications(op: &Op) -> Vec<Op> {
    let mut out = Vec::new();
    match op {
        Op::Query { site, mac, key, plan, dp } => {
            if dp.is_some() {
                out.push(Op::Query { site: *site, mac: *mac, key: *key, plan: plan.clone(), dp: None });
            }
            if !plan.is_empty() {
                let mut p = plan.clone();
                p.pop();
                out.push(Op::Query { site: *site, mac: *mac, key: *key, plan: p, dp: *dp });
            }
            for i in 0..plan.len() {
                let a = &plan[i];
                if a.w.is_some() || a.inner != Inner::Nothing {
                    let mut p = plan.clone();
                    p[i].w = None;
                    p[i].inner = Inner::Nothing;
                    out.push(Op::Query { site: *site, mac: *mac, key: *key, plan: p, dp: *dp });
                }
                if a.panic {
                    let mut p = plan.clone();
                    p[i].panic = false;
                    out.push(Op::Query { site: *site, mac: *mac, key: *key, plan: p, dp: *dp });
                }
                if a.step != Step::Continue {
                    let mut p = plan.clone();
                    p[i].step = Step::Continue;
                    out.push(Op::Query { site: *site, mac: *mac, key: *key, plan: p, dp: *dp });
                }
            }
        }
        Op::Destroy { h, typed, lvl, cross, over, dp } => {
            if dp.is_some() {
                out.push(Op::Destroy { h: *h, typed: *typed, lvl: *lvl, cross: *cross, over: *over, dp: None });
            }
            if *over {
                out.push(Op::Destroy { h: *h, typed: *typed, lvl: *lvl, cross: *cross, over: false, dp: *dp });
            }
            if !*typed || *lvl != Lvl::Arch {
                out.push(Op::Destroy { h: *h, typed: true, lvl: Lvl::Arch, cross: *cross, over: *over, dp: None });
            }
        }
        Op::CloneWorld { panic_at, probe } => {
            if panic_at.is_some() {
                out.push(Op::CloneWorld { panic_at: None, probe: *probe });
            }
            if probe.is_some() {
                out.push(Op::CloneWorld { panic_at: *panic_at, probe: None });
            }
        }
        Op::CloneFromX { n, a, panic_at, dp } => {
            if panic_at.is_some() || dp.is_some() {
                out.push(Op::CloneFromX { n: *n, a: *a, panic_at: None, dp: None });
            }
            if a.is_some() {
                out.push(Op::CloneFromX { n: *n, a: None, panic_at: *panic_at, dp: *dp });
            }
        }
        Op::DropWorld { panic_at } => {
            if panic_at.is_some() {
                out.push(Op::DropWorld { panic_at: None });
            }
        }
        Op::Cycle { a, n } => {
            if *n > 1 {
                out.push(Op::Cycle { a: *a, n: n / 2 });
                out.push(Op::Cycle { a: *a, n: n - 1 });
            }
        }
        Op::Bulk { a, n, p } => {
            if *n > 1 {
                out.push(Op::Bulk { a: *a, n: n / 2, p: *p });
                out.push(Op::Bulk { a: *a, n: n - 1, p: *p });
            }
        }
        Op::Nest { accs, at } => {
            if accs.len() > 1 {
                let mut a = accs.clone();
                a.pop();
                out.push(Op::Nest { accs: a, at: *at });
                out.push(Op::Nest { accs: accs[1..].to_vec(), at: *at });
            }
        }
        Op::Scan { a, path, w } => {
            if w.is_some() {
                out.push(Op::Scan { a: *a, path: *path, w: None });
            }
        }
        Op::CreateLazy { a, p, fail } => {
            if *fail {
                out.push(Op::CreateLazy { a: *a, p: *p, fail: false });
            }
            out.push(Op::Create { a: *a, lvl: Lvl::Arch, p: *p });
        }
        _ => {}
    }
    out
}

/// Shrinks while the same violation class (property + clause) persists. Bounded.
pub fn shrink(prop: &str, spec: &RunSpec, class: (&str, &str), budget: usize) -> (RunSpec, usize) {
    let mut best = spec.clone();
    let mut execs = 0usize;
    // long histories: bound minimisation by wall-clock as well (the verdict does not depend on
    // where minimisation stops; the file is re-checked either way)
    let t0 = std::time::Instant::now();
    let same = |s: &RunSpec, execs: &mut usize| -> bool {
        if t0.elapsed().as_secs() > 240 {
            *execs = usize::MAX / 2;
            return false;
        }
        *execs += 1;
        match class_of(prop, s) {
            Some((p, c, _)) => p == class.0 && c == class.1,
            None => false,
        }
    };
    // 0. drop everything after the failing step is implicit: truncate from the end first
    loop {
        let mut progress = false;
        // 1. remove chunks
        let mut chunk = (best.ops.len() / 2).max(1);
        while chunk >= 1 && execs < budget {
            let mut i = 0;
            while i < best.ops.len() && execs < budget {
                let end = (i + chunk).min(best.ops.len());
                let mut cand = best.clone();
                cand.ops.drain(i..end);
                if let Some(c) = cand.crash_after {
                    cand.crash_after = Some(c.min(cand.ops.len() as u32));
                }
                if same(&cand, &mut execs) {
                    best = cand;
                    progress = true;
                } else {
                    i += chunk;
                }
            }
            if chunk == 1 {
                break;
            }
            chunk /= 2;
        }
        // 2. simplify single steps
        let mut i = 0;
        while i < best.ops.len() && execs < budget {
            let mut changed = false;
            for s in simplifications(&best.ops[i]) {
                let mut cand = best.clone();
                cand.ops[i] = s;
                if same(&cand, &mut execs) {
                    best = cand;
                    changed = true;
                    progress = true;
                    break;
                }
            }
            if !changed {
                i += 1;
            }
        }
        // 3. configuration
        if best.caps.iter().any(|c| *c != 0) && execs < budget {
            let mut cand = best.clone();
            cand.caps = vec![0; cand.caps.len()];
            if same(&cand, &mut execs) {
                best = cand;
                progress = true;
            }
        }
        if best.crash_after.is_some() && execs < budget {
            let mut cand = best.clone();
            cand.crash_after = None;
            if same(&cand, &mut execs) {
                best = cand;
                progress = true;
            }
        }
        if !progress || execs >= budget {
            break;
        }
    }
    (best, execs)
}

/// Confirms the failure, minimises it, writes the replay file and re-checks the file's content.
/// Returns (path, minimised spec, confirmed).
pub fn handle_failure(prop: &str, f: &Failure, dir: &str, seed: u64) -> (String, RunSpec, bool) {
    let _ = std::fs::create_dir_all(dir);
    // The simulator is deterministic (proved on the unchanged tree), so a failure that does not
    // recur identically means the code under test read memory whose content is not a function of
    // the history (uninitialised / freed / out of bounds). Try a few more times before giving up
    // on minimisation; the violation is reported either way.
    let mut confirmed = false;
    for _ in 0..6 {
        if let Some((p, c, _)) = class_of(prop, &f.spec) {
            if p == f.prop && c == f.clause {
                confirmed = true;
                break;
            }
        }
    }
    let (min, execs) = if confirmed { shrink(prop, &f.spec, (&f.prop, &f.clause), 3000) } else { (f.spec.clone(), 0) };
    let detail = class_of(prop, &min).map(|x| x.2).unwrap_or_else(|| f.detail.clone());
    let path = format!("{}/{}-seed{}-unit{}.replay", dir, f.prop, seed, f.unit);
    let cfg = crate::engine::build_cfg();
    let mut text = String::new();
    text.push_str("# gecs-sim replay file (explicit trace; no PRNG involved in replay)\n");
    text.push_str(&format!("# property={} clause={}\n", f.prop, f.clause));
    text.push_str(&format!("# check={} seed={} unit={} original_ops={} minimised_ops={} shrink_executions={}\n", prop, seed, f.unit, f.spec.ops.len(), min.ops.len(), execs.min(3000)));
    text.push_str(&format!("# build: debug_assertions={} events={} wrapping_version={} 32_components={} hooks={}\n", cfg.debug, cfg.events, cfg.wrapping, cfg!(feature = "32_components"), cfg.hooks));
    text.push_str(&format!("# violated: {}\n", detail.replace('\n', " ")));
    if !confirmed {
        text.push_str("# NOTE: this failure was observed once but did not recur when the same trace was re-executed: the outcome depends on memory content that is not a function of the history (uninitialised or freed memory was read). The trace below is the original, unminimised one.\n");
    }
    text.push_str(&pretty(&min));
    let _ = std::fs::write(&path, &text);
    // the file as written must parse back to the same spec and fail the same way
    let reparsed = crate::batch::parse_replay(&text).ok();
    let ok = confirmed
        && reparsed.as_ref() == Some(&min)
        && match class_of(prop, &min) {
            Some((p, c, _)) => p == f.prop && c == f.clause,
            None => false,
        };
    (path, min, ok)
}
