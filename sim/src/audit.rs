//! Cross-invariants evaluated after every step and after every caught panic.

use std::collections::{BTreeMap, BTreeSet};

use crate::engine::*;
use crate::model::*;
use crate::rt;
use crate::spec::*;

const FREE_BIT: u32 = 1 << 31;
const FREE_END: u32 = u32::MAX;

fn multiset(v: &[Bits]) -> BTreeMap<Bits, usize> {
    let mut m = BTreeMap::new();
    for b in v {
        *m.entry(*b).or_insert(0) += 1;
    }
    m
}

impl<W: WorldSpec> Engine<W> {
    /// Population, capacity, representation invariant, events and direct-handle bijection of one world.
    pub fn audit_world(&mut self, wid: usize) {
        if self.ws[wid].is_none() {
            return;
        }
        let mut digest: u64 = 0;
        for (ai, d) in W::archs().iter().enumerate() {
            let w = self.ws[wid].as_ref().unwrap();
            let (len, cap, empty) = (d.len(w), d.capacity(w), d.is_empty(w));
            let am = &self.ms[wid].archs[ai];
            if len != am.len {
                vio("C12", "len-mismatch", format!("{}: len() = {} but {} entities are alive", d.info().name, len, am.len));
                return;
            }
            if empty != (len == 0) {
                vio("C12", "is_empty-mismatch", format!("{}: is_empty() = {} with len() = {}", d.info().name, empty, len));
                return;
            }
            if cap < am.cap {
                vio("C12", "capacity-decreased", format!("{}: capacity() went from {} to {}", d.info().name, am.cap, cap));
                return;
            }
            if cap != am.cap {
                vio("C12", "capacity-changed-without-create", format!("{}: capacity() changed from {} to {} outside a creation", d.info().name, am.cap, cap));
                return;
            }
            if cap < len {
                vio("C12", "capacity-below-len", format!("{}: capacity() {} < len() {}", d.info().name, cap, len));
                return;
            }
            // Archetype::version() (public): two equal readings mean "no removal in between" - that
            // is what a client caches next to its direct handles (C09)
            {
                let pv = d.version(w);
                let wrapping = self.cfg.wrapping;
                let am = &mut self.ms[wid].archs[ai];
                if let Some((old, rem)) = am.pub_ver {
                    if !wrapping && am.removals > rem && pv == old {
                        vio("C09", "public-version-unchanged-over-removals", format!("{}: Archetype::version() is still {:?} after {} more removals", d.info().name, pv, am.removals - rem));
                        return;
                    }
                }
                am.pub_ver = Some((pv, am.removals));
            }
            let w = self.ws[wid].as_ref().unwrap();
            let ents = d.entities(w);
            let want: BTreeSet<Bits> = self.ms[wid].live_of(ai).into_iter().collect();
            let got: BTreeSet<Bits> = ents.iter().copied().collect();
            if ents.len() != len || got.len() != ents.len() || got != want {
                vio("C06", "entities-mismatch", format!("{}: entities() = {:x?} but the live set is {:x?}", d.info().name, ents, want));
                return;
            }
            for b in &ents {
                digest = mix(digest, *b);
            }
            digest = mix(digest, ((len as u64) << 32) | cap as u64);
            // every live entity gets a direct handle; the map is a bijection onto 0..len and
            // every member resolves back to its entity (C09: accepted at the moment it is issued)
            let mut dset = BTreeSet::new();
            for b in &ents {
                let any = any_from_bits(*b).unwrap();
                match catch(|| d.to_direct(w, Lvl::Arch, Key::T(any))) {
                    Ok(Some(dd)) => {
                        if !dset.insert(dbits(dd)) {
                            vio("C09", "direct-handles-collide", format!("{}: two live entities got the same direct handle {:#x}", d.info().name, dbits(dd)));
                            return;
                        }
                        match catch(|| d.resolve(w, Key::DA(dd))) {
                            Ok(Some(idx)) if ents.get(idx) == Some(b) => {}
                            Ok(o) => {
                                vio("C09", "fresh-direct-designates-other", format!("{}: to_direct({:#x}) resolves to index {:?} = {:x?}", d.info().name, b, o, o.and_then(|i| ents.get(i))));
                                return;
                            }
                            Err(c) => {
                                vio("C10", "unexpected-panic", format!("resolve(direct) panicked: {}", c.msg));
                                return;
                            }
                        }
                    }
                    Ok(None) => {
                        vio("C01", "live-handle-rejected", format!("{}: to_direct({:#x}) is None for a live entity", d.info().name, b));
                        return;
                    }
                    Err(c) => {
                        vio("C10", "unexpected-panic", format!("to_direct panicked: {}", c.msg));
                        return;
                    }
                }
            }
            // the full layout dump is O(capacity): for very large capacities only every 8th step
            if self.cfg.hooks && (cap <= 8192 || self.step % 8 == 0) {
                self.rep_invariant(wid, ai);
            }
            #[cfg(feature = "events")]
            {
                let w = self.ws[wid].as_ref().unwrap();
                let am = &self.ms[wid].archs[ai];
                let (c, de) = (d.created(w), d.destroyed(w));
                if multiset(&c) != multiset(&am.created_ev) {
                    vio("C17", "created-log-mismatch", format!("{}: created log {:x?}, creations since last clear {:x?}", d.info().name, c, am.created_ev));
                    return;
                }
                if multiset(&de) != multiset(&am.destroyed_ev) {
                    vio("C17", "destroyed-log-mismatch", format!("{}: destroyed log {:x?}, destructions since last clear {:x?}", d.info().name, de, am.destroyed_ev));
                    return;
                }
            }
        }
        #[cfg(feature = "events")]
        {
            let w = self.ws[wid].as_ref().unwrap();
            let mut want_c = Vec::new();
            let mut want_d = Vec::new();
            let mut nonempty = 0;
            for am in &self.ms[wid].archs {
                want_c.extend_from_slice(&am.created_ev);
                want_d.extend_from_slice(&am.destroyed_ev);
                if !am.created_ev.is_empty() {
                    nonempty += 1;
                }
            }
            for (name, got, want) in [("iter_created", w.w_created(), &want_c), ("iter_destroyed", w.w_destroyed(), &want_d)] {
                match got {
                    Ok(g) => {
                        if multiset(&g) != multiset(want) {
                            vio("C17", "world-event-iterator-mismatch", format!("World::{} yielded {:x?}, union over archetypes is {:x?}", name, g, want));
                            return;
                        }
                    }
                    Err(e) => {
                        vio("C17", "size-hint", format!("World::{}: {}", name, e));
                        return;
                    }
                }
            }
            self.stats.inc("events_checked");
            if nonempty > 0 && nonempty < self.ms[wid].archs.len() {
                self.stats.inc("events_some_archetypes_empty");
            }
        }
        let _ = multiset;
        rt::h(&[0xA0D1, wid as u64, digest]);
    }

    /// Hook-based early warning. Every clause is one whose failure leads to a behavioural
    /// violation of the named property; no clause constrains policy.
    pub fn rep_invariant(&mut self, wid: usize, ai: usize) {
        let d = W::archs()[ai];
        let dump = d.dump(self.ws[wid].as_ref().unwrap());
        let name = d.info().name;
        if dump.slots.len() != dump.capacity || dump.entities.len() != dump.len {
            vio("C12", "rep-sizes", format!("{}: dump sizes inconsistent", name));
            return;
        }
        // free list: exactly capacity - len distinct in-range free positions, ends in the end marker
        let mut seen = BTreeSet::new();
        let mut cur = dump.free_head;
        let mut steps = 0usize;
        while cur != FREE_END {
            if cur & FREE_BIT == 0 {
                vio("C12", "rep-free-list", format!("{}: free-list link {:#x} lacks the free marker", name, cur));
                return;
            }
            let pos = (cur & !FREE_BIT) as usize;
            if pos >= dump.capacity {
                vio("C12", "rep-free-list", format!("{}: free-list position {} out of range (capacity {})", name, pos, dump.capacity));
                return;
            }
            if !seen.insert(pos) {
                vio("C12", "rep-free-list", format!("{}: free list revisits position {}", name, pos));
                return;
            }
            let (idx, _) = dump.slots[pos];
            if idx & FREE_BIT == 0 {
                vio("C12", "rep-free-list", format!("{}: position {} is on the free list but marked live", name, pos));
                return;
            }
            cur = idx;
            steps += 1;
            if steps > dump.capacity + 1 {
                vio("C12", "rep-free-list", format!("{}: free list does not terminate", name));
                return;
            }
        }
        if seen.len() != dump.capacity - dump.len {
            vio("C12", "rep-free-list", format!("{}: free list has {} positions, capacity - len = {}", name, seen.len(), dump.capacity - dump.len));
            return;
        }
        // live positions <-> dense indices is a bijection whose back-pointers and generations agree
        let aid = d.info().id as u32;
        for (di, (key, ver)) in dump.entities.iter().enumerate() {
            let pos = (key >> 8) as usize;
            if key & 0xFF != aid || pos >= dump.capacity {
                vio("C01", "rep-dense", format!("{}: dense entry {} has key {:#x}", name, di, key));
                return;
            }
            let (idx, sver) = dump.slots[pos];
            if idx & FREE_BIT != 0 || idx as usize != di || sver != *ver {
                vio("C01", "rep-dense", format!("{}: dense entry {} (pos {}, gen {}) does not match slot ({:#x}, gen {})", name, di, pos, ver, idx, sver));
                return;
            }
        }
        let live_slots = dump.slots.iter().filter(|(i, _)| i & FREE_BIT == 0).count();
        if live_slots != dump.len {
            vio("C01", "rep-dense", format!("{}: {} slots marked live but len {}", name, live_slots, dump.len));
            return;
        }
        if dump.slots.iter().any(|(_, v)| *v == 0) || dump.version == 0 {
            vio("C08", "rep-zero-generation", format!("{}: a generation counter is zero", name));
            return;
        }
        // a position's generation never decreases (wrap only with the feature): a decrease is a
        // reissued handle waiting to happen (C08)
        {
            let wrapping = self.cfg.wrapping;
            let am = &mut self.ms[wid].archs[ai];
            for (pos, (_, g)) in dump.slots.iter().enumerate() {
                if let Some(old) = am.slot_gens.get(pos) {
                    if *g < *old && !wrapping {
                        vio("C08", "rep-generation-decreased", format!("{}: generation of position {} went {} -> {}", name, pos, old, g));
                        return;
                    }
                }
            }
            am.slot_gens = dump.slots.iter().map(|(_, g)| *g).collect();
        }
        // archetype version: never moves backwards and changes with every removal (wrap only with
        // the feature). The increment policy itself is not prescribed: the model adopts the
        // observed value, so a property-preserving change of policy cannot trip a prediction.
        {
            let wrapping = self.cfg.wrapping;
            let am = &mut self.ms[wid].archs[ai];
            let v = dump.version as u64;
            if am.ver_obs != 0 && !wrapping {
                if v < am.ver_obs || (am.removals > am.rem_at_obs && v == am.ver_obs) {
                    vio("C09", "rep-version", format!("{}: archetype version went {} -> {} over {} removals", name, am.ver_obs, v, am.removals - am.rem_at_obs));
                    return;
                }
            }
            am.ver = v;
            am.ver_obs = v;
            am.rem_at_obs = am.removals;
        }
        // abstract state hash for the "distinct states" measure
        let mut hsh = mix(dump.len as u64, dump.capacity as u64);
        let mut c = dump.free_head;
        let mut n = 0;
        while c != FREE_END && n < 64 {
            hsh = mix(hsh, (c & !FREE_BIT) as u64);
            c = dump.slots[(c & !FREE_BIT) as usize].0;
            n += 1;
        }
        for (k, _) in &dump.entities {
            hsh = mix(hsh, (*k >> 8) as u64);
        }
        self.state_hashes.insert(hsh);
        // probes
        if dump.len > 0 && !seen.is_empty() {
            let maxlive = dump.entities.iter().map(|(k, _)| (k >> 8) as usize).max().unwrap();
            if seen.iter().any(|p| *p < maxlive) {
                self.stats.inc("state_free_position_in_middle");
            }
        }
    }

    /// Everything the properties say about one book entry, through every lookup path.
    pub fn audit_entry(&mut self, wid: usize, ei: usize, full: bool) {
        if self.ws[wid].is_none() || rt::has_violation() {
            return;
        }
        let e = self.book[ei].clone();
        let native = e.native_in(wid).is_some() && !e.forged;
        let own = arch_of_byte::<W>(e.arch_byte);
        let n = W::archs().len();
        let direct = e.is_direct();
        let lp: &'static str = if direct { "C09" } else if native { "C01" } else { "C03" };
        let own = match own {
            Some(o) => o,
            None => {
                // undeclared archetype id: world level must panic cleanly, archetype level says no
                let k = self.key_for(ei, false, false, 0);
                let w = self.ws[wid].as_ref().unwrap();
                match catch(|| W::archs()[0].contains(w, Lvl::World, k)) {
                    Ok(true) => vio("C03", "accidental-match", format!("contains({:?}) is true for an undeclared archetype id", k)),
                    Ok(false) => {}
                    Err(c) if is_clean_forged_panic(&c.msg) => self.stats.inc("forged_undeclared_archetype_clean_panic"),
                    Err(c) => vio("C10", "unexpected-panic", format!("contains({:?}) panicked: {}", k, c.msg)),
                }
                let a = (self.step as usize + ei) % n;
                match catch(|| W::archs()[a].contains(w, Lvl::Arch, k)) {
                    Ok(false) => {}
                    Ok(true) => vio("C03", "accidental-match", format!("{}.contains({:?}) is true for an undeclared archetype id", W::archs()[a].info().name, k)),
                    Err(c) => vio("C10", "unexpected-panic", format!("archetype contains({:?}) panicked: {}", k, c.msg)),
                }
                return;
            }
        };
        let d = W::archs()[own];
        let keys = [self.key_for(ei, true, false, own), self.key_for(ei, false, false, own)];
        for (kidx, key) in keys.iter().copied().enumerate() {
            if !full && kidx == (self.step as usize & 1) {
                continue;
            }
            let exp = self.expect(wid, ei, key, own);
            let want_row: Option<Row> = exp.target.and_then(|t| self.ms[wid].ents.get(&t).map(|r| (t, r.cols.clone())));
            // verdict paths
            let mut verdicts: Vec<(&'static str, Result<bool, Caught>)> = Vec::new();
            {
                let w = self.ws[wid].as_ref().unwrap();
                verdicts.push(("World::contains", catch(|| d.contains(w, Lvl::World, key))));
                if full {
                    verdicts.push(("Archetype::contains", catch(|| d.contains(w, Lvl::Arch, key))));
                    verdicts.push(("Archetype::resolve", catch(|| d.resolve(w, key).is_some())));
                    if !direct {
                        verdicts.push(("World::to_direct", catch(|| d.to_direct(w, Lvl::World, key).is_some())));
                        verdicts.push(("Archetype::to_direct", catch(|| d.to_direct(w, Lvl::Arch, key).is_some())));
                    }
                }
            }
            if full && matches!(key, Key::A(_) | Key::DA(_)) {
                // find macros with a parameterless closure: found iff alive
                let w = self.ws[wid].as_mut().unwrap();
                verdicts.push(("ecs_find!(.., || ..)", catch(|| w.find_unit(false, key))));
                verdicts.push(("ecs_find_borrow!(.., || ..)", catch(|| w.find_unit(true, key))));
            }
            for (name, r) in verdicts {
                match r {
                    Ok(acc) => {
                        if acc && exp.acc == Tri::No {
                            vio(lp, "dead-handle-accepted", format!("{}({:?}) accepts, but the model says the handle designates no live entity [entry {:?}]", name, key, e));
                            return;
                        }
                        if !acc && exp.acc == Tri::Yes {
                            vio(lp, "live-handle-rejected", format!("{}({:?}) rejects, but the entity is alive [entry {:?}]", name, key, e));
                            return;
                        }
                    }
                    Err(c) => {
                        if exp.panic_ok && is_clean_forged_panic(&c.msg) {
                            self.stats.inc("forged_clean_panic");
                        } else {
                            vio("C10", "unexpected-panic", format!("{}({:?}) panicked: {} [entry {:?}]", name, key, c.msg, e));
                            return;
                        }
                    }
                }
            }
            // stale direct handles echoed by to_direct (C09)
            if direct && full {
                let w = self.ws[wid].as_ref().unwrap();
                for lvl in [Lvl::World, Lvl::Arch] {
                    match catch(|| d.to_direct(w, lvl, key)) {
                        Ok(Some(dd)) => {
                            if exp.acc == Tri::No {
                                vio("C09", "to_direct-accepts-stale-direct", format!("to_direct({:?}) at {:?} level returned Some({:#x}) for a direct handle that must be rejected", key, lvl, dbits(dd)));
                                return;
                            }
                        }
                        Ok(None) => {
                            if exp.acc == Tri::Yes {
                                vio("C09", "live-handle-rejected", format!("to_direct({:?}) rejects a direct handle that must be accepted", key));
                                return;
                            }
                        }
                        Err(c) => {
                            if !(exp.panic_ok && is_clean_forged_panic(&c.msg)) {
                                vio("C10", "unexpected-panic", format!("to_direct({:?}) panicked: {}", key, c.msg));
                                return;
                            }
                        }
                    }
                }
            }
            // read paths
            let paths: &[RPath] = if full { &RPATHS } else { &[RPath::ABorrow] };
            for path in paths.iter().copied() {
                if !key.is_typed() && matches!(path, RPath::WView | RPath::WBorrow) {
                    continue;
                }
                let w = self.ws[wid].as_mut().unwrap();
                match catch(|| d.read(w, path, key)) {
                    Ok(Some(row)) => {
                        if exp.acc == Tri::No {
                            vio(lp, "dead-handle-accepted", format!("read via {:?} with {:?} returned {:x?}, but the model says the handle designates no live entity [entry {:?}]", path, key, row, e));
                            return;
                        }
                        if Some(&row) != want_row.as_ref() {
                            let p = if direct { "C09" } else { "C02" };
                            vio(p, "read-mismatch", format!("read via {:?} with {:?} returned {:x?}, the entity is {:x?}", path, key, row, want_row));
                            return;
                        }
                        self.stats.inc("audit_read_ok");
                    }
                    Ok(None) => {
                        if exp.acc == Tri::Yes {
                            vio(lp, "live-handle-rejected", format!("read via {:?} with {:?} returned None, but the entity is alive [entry {:?}]", path, key, e));
                            return;
                        }
                        self.stats.inc("audit_reject_ok");
                    }
                    Err(c) => {
                        if exp.panic_ok && is_clean_forged_panic(&c.msg) {
                            self.stats.inc("forged_clean_panic");
                        } else {
                            vio("C10", "unexpected-panic", format!("read via {:?} with {:?} panicked: {} [entry {:?}]", path, key, c.msg, e));
                            return;
                        }
                    }
                }
            }
        }
        if full {
            // dynamic keys presented to another archetype: never match, through any archetype-level
            // entry point (verdicts and read paths)
            let other = (own + 1 + (self.step as usize % (n.max(2) - 1))) % n;
            if other != own {
                let key = self.key_for(ei, false, false, other);
                let od = W::archs()[other];
                let mut hits: Vec<&'static str> = Vec::new();
                let mut bad_panic: Option<String> = None;
                {
                    let w = self.ws[wid].as_mut().unwrap();
                    let mut note = |name: &'static str, r: Result<bool, Caught>| match r {
                        Ok(true) => hits.push(name),
                        Ok(false) => {}
                        Err(c) => {
                            if !is_clean_forged_panic(&c.msg) {
                                bad_panic = Some(format!("{}: {}", name, c.msg));
                            }
                        }
                    };
                    note("contains", catch(|| od.contains(w, Lvl::Arch, key)));
                    note("resolve", catch(|| od.resolve(w, key).is_some()));
                    note("to_direct", catch(|| od.to_direct(w, Lvl::Arch, key).is_some()));
                    note("view", catch(|| od.read(w, RPath::AView, key).is_some()));
                    note("borrow", catch(|| od.read(w, RPath::ABorrow, key).is_some()));
                    note("find", catch(|| od.read(w, RPath::Find, key).is_some()));
                    note("find_borrow", catch(|| od.read(w, RPath::FindBorrow, key).is_some()));
                }
                if !hits.is_empty() {
                    vio("C03", "accidental-match", format!("{}: a dynamically typed key of another archetype ({:?}) is accepted by {:?}", od.info().name, key, hits));
                    return;
                }
                if let Some(m) = bad_panic {
                    vio("C10", "unexpected-panic", format!("dynamic key on another archetype panicked: {}", m));
                    return;
                }
            }
            // probes
            if !direct && native && !self.ms[wid].ents.contains_key(&e.bits) {
                self.stats.inc("stale_probe");
                let slot = e.bits >> 40;
                let reuse = self.ms[wid].issued.range((e.bits & !0xFFFF_FFFF)..=(e.bits | 0xFFFF_FFFF)).filter(|b| (**b >> 40) == slot && **b > e.bits).count();
                if reuse >= 2 {
                    self.stats.inc("stale_probe_reuse_ge2");
                    if self.stats.get("growth_after_churn") > 0 {
                        self.stats.inc("stale_probe_reuse_ge2_after_growth");
                    }
                }
            }
        }
    }

    /// The per-step audit: the current world in full, every handle cheaply, a rotating window
    /// and all touched handles through every path.
    pub fn audit_step(&mut self, all: bool) {
        if rt::has_violation() {
            return;
        }
        let wid = self.cur;
        if !self.cur_alive() {
            return;
        }
        self.audit_world(wid);
        if rt::has_violation() {
            return;
        }
        let nb = self.book.len();
        let small = nb <= 48 || self.heavy_audit;
        let full_all = all || (small && (self.step % 2 == 0 || self.heavy_audit));
        let mut full_set: BTreeSet<usize> = self.touched.drain(..).filter(|i| *i < nb).collect();
        if !full_all && nb > 0 {
            for j in 0..6 {
                full_set.insert((self.audit_rot + j) % nb);
            }
            self.audit_rot = (self.audit_rot + 6) % nb;
        }
        for ei in 0..nb {
            let full = full_all || full_set.contains(&ei);
            self.audit_entry(wid, ei, full);
            if rt::has_violation() {
                return;
            }
        }
        self.stats.add("audited_handles", nb as u64);
        if full_all {
            self.stats.inc("complete_audits");
        }
        if all || self.scan_every <= 1 || self.step % self.scan_every == 0 {
            for ai in 0..W::archs().len() {
                let p = SPATHS[(self.step as usize + ai) % SPATHS.len()];
                if all {
                    for p in SPATHS {
                        self.scan_check(wid, ai, p, None);
                    }
                } else {
                    self.scan_check(wid, ai, p, None);
                }
                if rt::has_violation() {
                    return;
                }
            }
        }
    }

    pub fn audit_all_worlds(&mut self) {
        let save = self.cur;
        for wid in self.alive_worlds() {
            self.cur = wid;
            self.audit_step(true);
            if rt::has_violation() {
                break;
            }
        }
        self.cur = save;
    }
}
