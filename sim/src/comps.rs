//! Instrumented component types. From gecs's point of view these are ordinary user types.
//!
//! Every value carries (where its layout has room) an id registered in `rt`, a payload that the
//! model tracks, and for `CompA` a canary. Clone and Drop call back into `rt`, which is where
//! faults F2/F3 are injected and where exactly-once drop is accounted.

use crate::rt;

#[derive(Clone, Copy, PartialEq, Eq, Debug, PartialOrd, Ord)]
pub struct Obs {
    pub kind: u8,
    pub id: u32,
    pub payload: u64,
}

pub trait Comp: Sized + Clone + 'static {
    const KIND: u8;
    const HAS_ID: bool;
    const PAYLOAD_MASK: u64;
    fn make(payload: u64) -> Self;
    fn obs(&self) -> Obs;
    fn set(&mut self, payload: u64);
}

/// Object-safe view used by query closures.
pub trait CompDyn {
    fn obs_dyn(&self) -> Obs;
    fn set_dyn(&mut self, payload: u64);
}

impl<T: Comp> CompDyn for T {
    #[inline]
    fn obs_dyn(&self) -> Obs {
        self.obs()
    }
    #[inline]
    fn set_dyn(&mut self, payload: u64) {
        self.set(payload)
    }
}

#[inline]
fn check_live(kind: u8, id: u32) {
    if rt::state(kind, id) != rt::VState::Live {
        rt::violate(
            "C02",
            "read-of-dead-value",
            format!("a component read returned a value that is not live: kind={} id={} state={:?}", kind, id, rt::state(kind, id)),
        );
    }
}

// ---------------------------------------------------------------------------------------------
// kind 0: 24 bytes, align 8, with canary
pub struct CompA {
    id: u64,
    payload: u64,
    canary: u64,
}
const CANARY: u64 = 0x5AFE_C0DE_D00D_F00D;

impl Comp for CompA {
    const KIND: u8 = 0;
    const HAS_ID: bool = true;
    const PAYLOAD_MASK: u64 = u64::MAX;
    fn make(payload: u64) -> Self {
        CompA { id: rt::on_make(0, true) as u64, payload, canary: CANARY }
    }
    fn obs(&self) -> Obs {
        if self.canary != CANARY || self.id > u32::MAX as u64 {
            rt::violate("C02", "canary", format!("CompA canary/id corrupted: id={:#x} canary={:#x}", self.id, self.canary));
            return Obs { kind: 0, id: u32::MAX, payload: self.payload };
        }
        check_live(0, self.id as u32);
        Obs { kind: 0, id: self.id as u32, payload: self.payload }
    }
    fn set(&mut self, payload: u64) {
        self.payload = payload;
    }
}
impl Clone for CompA {
    fn clone(&self) -> Self {
        rt::on_clone_enter(0, self.id as u32);
        let n = Self::make(self.payload);
        rt::on_clone_done(0, self.id as u32, n.id as u32);
        n
    }
}
impl Drop for CompA {
    fn drop(&mut self) {
        let id = if self.id > u32::MAX as u64 { u32::MAX } else { self.id as u32 };
        rt::on_drop(0, id, true);
    }
}

// ---------------------------------------------------------------------------------------------
// kind 1: 8 bytes, align 4
pub struct CompB {
    id: u32,
    payload: u16,
    tag: u8,
}
impl Comp for CompB {
    const KIND: u8 = 1;
    const HAS_ID: bool = true;
    const PAYLOAD_MASK: u64 = 0xFFFF;
    fn make(payload: u64) -> Self {
        CompB { id: rt::on_make(1, true), payload: payload as u16, tag: 0xB7 }
    }
    fn obs(&self) -> Obs {
        if self.tag != 0xB7 {
            rt::violate("C02", "canary", format!("CompB tag corrupted: {:#x}", self.tag));
        }
        check_live(1, self.id);
        Obs { kind: 1, id: self.id, payload: self.payload as u64 }
    }
    fn set(&mut self, payload: u64) {
        self.payload = payload as u16;
    }
}
impl Clone for CompB {
    fn clone(&self) -> Self {
        rt::on_clone_enter(1, self.id);
        let n = Self::make(self.payload as u64);
        rt::on_clone_done(1, self.id, n.id);
        n
    }
}
impl Drop for CompB {
    fn drop(&mut self) {
        rt::on_drop(1, self.id, true);
    }
}

// ---------------------------------------------------------------------------------------------
// kind 2: 3 bytes, align 1
pub struct CompS {
    b: [u8; 3],
}
impl CompS {
    fn id(&self) -> u32 {
        self.b[0] as u32 | (self.b[1] as u32) << 8
    }
}
impl Comp for CompS {
    const KIND: u8 = 2;
    const HAS_ID: bool = true;
    const PAYLOAD_MASK: u64 = 0xFF;
    fn make(payload: u64) -> Self {
        let id = rt::on_make(2, true);
        assert!(id < 65536, "sim limit: too many CompS values in one run");
        CompS { b: [id as u8, (id >> 8) as u8, payload as u8] }
    }
    fn obs(&self) -> Obs {
        check_live(2, self.id());
        Obs { kind: 2, id: self.id(), payload: self.b[2] as u64 }
    }
    fn set(&mut self, payload: u64) {
        self.b[2] = payload as u8;
    }
}
impl Clone for CompS {
    fn clone(&self) -> Self {
        rt::on_clone_enter(2, self.id());
        let n = Self::make(self.b[2] as u64);
        rt::on_clone_done(2, self.id(), n.id());
        n
    }
}
impl Drop for CompS {
    fn drop(&mut self) {
        rt::on_drop(2, self.id(), true);
    }
}

// ---------------------------------------------------------------------------------------------
// kind 3: heap owning
pub struct CompH {
    inner: Box<(u64, u64)>,
}
impl Comp for CompH {
    const KIND: u8 = 3;
    const HAS_ID: bool = true;
    const PAYLOAD_MASK: u64 = u64::MAX;
    fn make(payload: u64) -> Self {
        CompH { inner: Box::new((rt::on_make(3, true) as u64, payload)) }
    }
    fn obs(&self) -> Obs {
        let id = if self.inner.0 > u32::MAX as u64 { u32::MAX } else { self.inner.0 as u32 };
        check_live(3, id);
        Obs { kind: 3, id, payload: self.inner.1 }
    }
    fn set(&mut self, payload: u64) {
        self.inner.1 = payload;
    }
}
impl Clone for CompH {
    fn clone(&self) -> Self {
        rt::on_clone_enter(3, self.inner.0 as u32);
        let n = Self::make(self.inner.1);
        rt::on_clone_done(3, self.inner.0 as u32, n.inner.0 as u32);
        n
    }
}
impl Drop for CompH {
    fn drop(&mut self) {
        let id = if self.inner.0 > u32::MAX as u64 { u32::MAX } else { self.inner.0 as u32 };
        rt::on_drop(3, id, true);
    }
}

// ---------------------------------------------------------------------------------------------
// kind 4: over-aligned
#[repr(align(64))]
pub struct CompL {
    id: u64,
    payload: u64,
}
impl Comp for CompL {
    const KIND: u8 = 4;
    const HAS_ID: bool = true;
    const PAYLOAD_MASK: u64 = u64::MAX;
    fn make(payload: u64) -> Self {
        CompL { id: rt::on_make(4, true) as u64, payload }
    }
    fn obs(&self) -> Obs {
        if (self as *const Self as usize) % 64 != 0 {
            rt::violate("C02", "alignment", "CompL reference is not 64-byte aligned".to_string());
        }
        let id = if self.id > u32::MAX as u64 { u32::MAX } else { self.id as u32 };
        check_live(4, id);
        Obs { kind: 4, id, payload: self.payload }
    }
    fn set(&mut self, payload: u64) {
        self.payload = payload;
    }
}
impl Clone for CompL {
    fn clone(&self) -> Self {
        rt::on_clone_enter(4, self.id as u32);
        let n = Self::make(self.payload);
        rt::on_clone_done(4, self.id as u32, n.id as u32);
        n
    }
}
impl Drop for CompL {
    fn drop(&mut self) {
        let id = if self.id > u32::MAX as u64 { u32::MAX } else { self.id as u32 };
        rt::on_drop(4, id, true);
    }
}

// ---------------------------------------------------------------------------------------------
// kind 5: zero-sized with Drop (braced so that the name is not in the value namespace)
pub struct CompZ {}
impl Comp for CompZ {
    const KIND: u8 = 5;
    const HAS_ID: bool = false;
    const PAYLOAD_MASK: u64 = 0;
    fn make(_payload: u64) -> Self {
        rt::on_make(5, false);
        CompZ {}
    }
    fn obs(&self) -> Obs {
        Obs { kind: 5, id: 0, payload: 0 }
    }
    fn set(&mut self, _payload: u64) {}
}
impl Clone for CompZ {
    fn clone(&self) -> Self {
        rt::on_clone_enter(5, 0);
        let n = Self::make(0);
        rt::on_clone_done(5, 0, 0);
        n
    }
}
impl Drop for CompZ {
    fn drop(&mut self) {
        rt::on_drop(5, 0, false);
    }
}

// ---------------------------------------------------------------------------------------------
// kind 6: zero-sized, Copy, untracked
#[derive(Clone, Copy)]
pub struct CompY {}
impl Comp for CompY {
    const KIND: u8 = 6;
    const HAS_ID: bool = false;
    const PAYLOAD_MASK: u64 = 0;
    fn make(_payload: u64) -> Self {
        CompY {}
    }
    fn obs(&self) -> Obs {
        Obs { kind: 6, id: 0, payload: 0 }
    }
    fn set(&mut self, _payload: u64) {}
}

// ---------------------------------------------------------------------------------------------
// kind 7: one byte, Drop counted
pub struct CompU {
    payload: u8,
}
impl Comp for CompU {
    const KIND: u8 = 7;
    const HAS_ID: bool = false;
    const PAYLOAD_MASK: u64 = 0xFF;
    fn make(payload: u64) -> Self {
        rt::on_make(7, false);
        CompU { payload: payload as u8 }
    }
    fn obs(&self) -> Obs {
        Obs { kind: 7, id: 0, payload: self.payload as u64 }
    }
    fn set(&mut self, payload: u64) {
        self.payload = payload as u8;
    }
}
impl Clone for CompU {
    fn clone(&self) -> Self {
        rt::on_clone_enter(7, 0);
        let n = Self::make(self.payload as u64);
        rt::on_clone_done(7, 0, 0);
        n
    }
}
impl Drop for CompU {
    fn drop(&mut self) {
        rt::on_drop(7, 0, false);
    }
}

// ---------------------------------------------------------------------------------------------
// kinds 8..: const-generic family for the wide archetypes (16 / 32 columns)
pub struct Tk<const N: u8> {
    id: u32,
    payload: u32,
}
impl<const N: u8> Comp for Tk<N> {
    const KIND: u8 = 8 + N;
    const HAS_ID: bool = true;
    const PAYLOAD_MASK: u64 = 0xFFFF_FFFF;
    fn make(payload: u64) -> Self {
        Tk { id: rt::on_make(8 + N, true), payload: payload as u32 }
    }
    fn obs(&self) -> Obs {
        check_live(8 + N, self.id);
        Obs { kind: 8 + N, id: self.id, payload: self.payload as u64 }
    }
    fn set(&mut self, payload: u64) {
        self.payload = payload as u32;
    }
}
impl<const N: u8> Clone for Tk<N> {
    fn clone(&self) -> Self {
        rt::on_clone_enter(8 + N, self.id);
        let n = Self::make(self.payload as u64);
        rt::on_clone_done(8 + N, self.id, n.id);
        n
    }
}
impl<const N: u8> Drop for Tk<N> {
    fn drop(&mut self) {
        rt::on_drop(8 + N, self.id, true);
    }
}

// ---------------------------------------------------------------------------------------------
// kind 41: a hand-written (instrumented) Clone but NO drop glue: a clone implemented by copying
// bytes instead of calling Clone::clone is visible only on such a type
pub struct CompC {
    id: u32,
    payload: u32,
}
impl Comp for CompC {
    const KIND: u8 = 41;
    const HAS_ID: bool = true;
    const PAYLOAD_MASK: u64 = 0xFFFF_FFFF;
    fn make(payload: u64) -> Self {
        CompC { id: rt::on_make(41, true), payload: payload as u32 }
    }
    fn obs(&self) -> Obs {
        check_live(41, self.id);
        Obs { kind: 41, id: self.id, payload: self.payload as u64 }
    }
    fn set(&mut self, payload: u64) {
        self.payload = payload as u32;
    }
}
impl Clone for CompC {
    fn clone(&self) -> Self {
        rt::on_clone_enter(41, self.id);
        let n = Self::make(self.payload as u64);
        rt::on_clone_done(41, self.id, n.id);
        n
    }
}

/// Kinds whose values run a tracked destructor (exactly-once drop accounting applies).
// ---------------------------------------------------------------------------------------------
// kinds 42..46: further shapes - byte arrays of size 5, 6, 7 (align 1; a register-sized move is
// wider than the element), 12 bytes with align 4 (size != align), align 16 and align 32
macro_rules! bytes_comp {
    ($name:ident, $kind:expr, $n:expr, $pb:expr) => {
        pub struct $name {
            b: [u8; $n],
        }
        impl $name {
            fn id(&self) -> u32 {
                self.b[0] as u32 | (self.b[1] as u32) << 8 | (self.b[2] as u32) << 16
            }
            fn payload(&self) -> u64 {
                let mut p = 0u64;
                for i in 0..$pb {
                    p |= (self.b[3 + i] as u64) << (8 * i);
                }
                p
            }
        }
        impl Comp for $name {
            const KIND: u8 = $kind;
            const HAS_ID: bool = true;
            const PAYLOAD_MASK: u64 = (1u64 << (8 * $pb)) - 1;
            fn make(payload: u64) -> Self {
                let id = rt::on_make($kind, true);
                assert!(id < (1 << 24), "sim limit: too many values of one byte-array kind in one run");
                let mut b = [0u8; $n];
                b[0] = id as u8;
                b[1] = (id >> 8) as u8;
                b[2] = (id >> 16) as u8;
                for i in 0..$pb {
                    b[3 + i] = (payload >> (8 * i)) as u8;
                }
                $name { b }
            }
            fn obs(&self) -> Obs {
                check_live($kind, self.id());
                Obs { kind: $kind, id: self.id(), payload: self.payload() }
            }
            fn set(&mut self, payload: u64) {
                for i in 0..$pb {
                    self.b[3 + i] = (payload >> (8 * i)) as u8;
                }
            }
        }
        impl Clone for $name {
            fn clone(&self) -> Self {
                rt::on_clone_enter($kind, self.id());
                let n = Self::make(self.payload());
                rt::on_clone_done($kind, self.id(), n.id());
                n
            }
        }
        impl Drop for $name {
            fn drop(&mut self) {
                rt::on_drop($kind, self.id(), true);
            }
        }
    };
}
bytes_comp!(CompS5, 42, 5, 2);
bytes_comp!(CompS7, 43, 7, 4);
bytes_comp!(CompS6, 47, 6, 3);

macro_rules! word_comp {
    ($(#[$attr:meta])* $name:ident, $kind:expr, $canary:expr) => {
        $(#[$attr])*
        pub struct $name {
            id: u32,
            payload: u32,
            canary: u32,
        }
        impl Comp for $name {
            const KIND: u8 = $kind;
            const HAS_ID: bool = true;
            const PAYLOAD_MASK: u64 = 0xFFFF_FFFF;
            fn make(payload: u64) -> Self {
                $name { id: rt::on_make($kind, true), payload: payload as u32, canary: $canary }
            }
            fn obs(&self) -> Obs {
                if self.canary != $canary {
                    rt::violate("C02", "canary", format!("{} canary corrupted: {:#x}", stringify!($name), self.canary));
                    return Obs { kind: $kind, id: u32::MAX, payload: self.payload as u64 };
                }
                check_live($kind, self.id);
                Obs { kind: $kind, id: self.id, payload: self.payload as u64 }
            }
            fn set(&mut self, payload: u64) {
                self.payload = payload as u32;
            }
        }
        impl Clone for $name {
            fn clone(&self) -> Self {
                rt::on_clone_enter($kind, self.id);
                let n = Self::make(self.payload as u64);
                rt::on_clone_done($kind, self.id, n.id);
                n
            }
        }
        impl Drop for $name {
            fn drop(&mut self) {
                let id = if self.canary == $canary { self.id } else { u32::MAX };
                rt::on_drop($kind, id, true);
            }
        }
    };
}
word_comp!(CompP12, 44, 0x5A17_C0DE);
word_comp!(#[repr(align(16))] CompA16, 45, 0x16A1_16A1);
word_comp!(#[repr(align(32))] CompA32, 46, 0x32A1_32A1);

pub fn kind_has_drop(kind: u8) -> bool {
    !matches!(kind, 6 | 41)
}

pub fn payload_mask(kind: u8) -> u64 {
    match kind {
        0 => CompA::PAYLOAD_MASK,
        1 => CompB::PAYLOAD_MASK,
        2 => CompS::PAYLOAD_MASK,
        3 => CompH::PAYLOAD_MASK,
        4 => CompL::PAYLOAD_MASK,
        5 | 6 => 0,
        7 => 0xFF,
        42 => 0xFFFF,
        47 => 0xFF_FFFF,
        _ => 0xFFFF_FFFF,
    }
}

pub fn kind_has_id(kind: u8) -> bool {
    !matches!(kind, 5 | 6 | 7)
}
