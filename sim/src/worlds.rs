//! Harness worlds: real `ecs_world!` expansions plus the adapters of `spec.rs`.
//! Every closure body below is a single call that records what gecs handed to it.

#![allow(non_snake_case)]
#![allow(unused_variables)]
#![allow(unused_mut)]
#![allow(clippy::all)]

use crate::comps::*;
use crate::spec::*;

/// Per-(world, archetype) query sites pinned to one archetype with its full column list.
pub trait ArchSites<W> {
    fn find_full(w: &mut W, borrow: bool, key: Key, write: Option<(usize, u64)>, byref: bool) -> Option<(Row, Option<gecs::prelude::EntityDirectAny>)>;
    fn iter_full(w: &mut W, borrow: bool, write: Option<(usize, usize, u64)>) -> Vec<(Row, Option<gecs::prelude::EntityDirectAny>)>;
    fn acc_find_borrow(w: &W, col: usize, mutable: bool, key: Key, k: &mut dyn FnMut(Obs)) -> bool;
    fn acc_iter_borrow(w: &W, col: usize, mutable: bool, k: &mut dyn FnMut(Bits, Obs) -> bool);
}

pub fn full_visit(
    ent: gecs::prelude::EntityAny,
    dir: gecs::prelude::EntityDirectAny,
    cols: &mut [ColRef<'_>],
    write: Option<(usize, u64)>,
) -> (Row, Option<gecs::prelude::EntityDirectAny>) {
    if let Some((c, p)) = write {
        cols[c].set(p);
    }
    ((abits(ent), cols.iter().map(|c| c.obs()).collect()), Some(dir))
}

macro_rules! with_key {
    ($key:expr, $A:ident, |$k:ident| $e:expr) => {
        match $key {
            Key::T(a) => {
                let $k = typed::<$A>(a);
                $e
            }
            Key::TO(a, s) => {
                let $k = typed_overwrite::<$A>(a, s);
                $e
            }
            Key::A(a) => {
                let $k = a;
                $e
            }
            Key::DT(d) => {
                let $k = dtyped::<$A>(d);
                $e
            }
            Key::DA(d) => {
                let $k = d;
                $e
            }
        }
    };
}

macro_rules! arch_spec {
    ($W:ident, $A:ident, [$(($C:ident, $f:ident)),* $(,)?]) => {
        impl ArchSpec for $A {
            const INFO: ArchInfo = ArchInfo {
                name: stringify!($A),
                id: <$A as Archetype>::ARCHETYPE_ID,
                kinds: &[$(<$C as Comp>::KIND),*],
            };
            fn make(p: &[u64]) -> <$A as Archetype>::Components {
                let mut i = 0usize;
                ($({ let v = <$C as Comp>::make(p[i]); i += 1; v },)*).into()
            }
            fn obs_comps(c: &<$A as Archetype>::Components) -> Vec<Obs> {
                // trait access and named-field access must agree
                let a = vec![$(c.get::<$C>().obs()),*];
                let b = vec![$(c.$f.obs()),*];
                if a != b {
                    crate::rt::violate("C02", "named-field-vs-trait-access", format!("{}Components: get::<C>() gives {:?}, named fields give {:?}", stringify!($A), a, b));
                }
                a
            }
            fn obs_view(v: &<$A as Archetype>::View<'_>) -> Row {
                let a = vec![$(v.component::<$C>().obs()),*];
                let b = vec![$(v.$f.obs()),*];
                if a != b {
                    crate::rt::violate("C02", "named-field-vs-trait-access", format!("{}View: component::<C>() gives {:?}, named fields give {:?}", stringify!($A), a, b));
                }
                (abits((*v.entity).into_any()), a)
            }
            fn view_index(v: &<$A as Archetype>::View<'_>) -> usize {
                v.index()
            }
            fn borrow_index(b: &<$A as Archetype>::Borrow<'_>) -> usize {
                b.index()
            }
            fn comps_roundtrip(c: <$A as Archetype>::Components) -> Vec<Obs> {
                // Components -> tuple -> Components (From/Into in both directions), get_mut
                let t: <<$A as Archetype>::Components as Components>::Tuple = c.into_tuple();
                let mut c2: <$A as Archetype>::Components = t.into();
                let o = vec![$(c2.get_mut::<$C>().obs()),*];
                let t2: ($($C,)*) = c2.into();
                drop(t2);
                o
            }
            fn set_view(v: &mut <$A as Archetype>::View<'_>, col: usize, p: u64) {
                let mut i = 0usize;
                $( if i == col { v.component_mut::<$C>().set(p); } i += 1; )*
            }
            fn obs_borrow(b: &<$A as Archetype>::Borrow<'_>) -> Row {
                (abits((*b.entity()).into_any()), vec![$(b.component::<$C>().obs()),*])
            }
            fn set_borrow(b: &<$A as Archetype>::Borrow<'_>, col: usize, p: u64) {
                let mut i = 0usize;
                $( if i == col { b.component_mut::<$C>().set(p); } i += 1; )*
            }
            fn obs_slices_at(&mut self, idx: usize) -> Row {
                let e = abits(self.entities()[idx].into_any());
                (e, vec![$(self.get_slice::<$C>()[idx].obs()),*])
            }
            fn set_slice_at(&mut self, idx: usize, col: usize, p: u64) {
                let mut i = 0usize;
                $( if i == col { self.get_slice_mut::<$C>()[idx].set(p); } i += 1; )*
            }
            fn obs_bslices_at(&self, idx: usize) -> Row {
                let e = abits(self.entities()[idx].into_any());
                (e, vec![$(self.borrow_slice::<$C>()[idx].obs()),*])
            }
            fn set_bslice_at(&self, idx: usize, col: usize, p: u64) {
                let mut i = 0usize;
                $( if i == col { self.borrow_slice_mut::<$C>()[idx].set(p); } i += 1; )*
            }
            fn obs_all_slices_at(&mut self, idx: usize) -> Row {
                let s = self.get_all_slices_mut();
                (abits(s.entity[idx].into_any()), vec![$(s.$f[idx].obs()),*])
            }
            fn set_all_slices_at(&mut self, idx: usize, col: usize, p: u64) {
                let s = self.get_all_slices_mut();
                let mut i = 0usize;
                $( if i == col { s.$f[idx].set(p); } i += 1; )*
            }
            fn scan_iter(&mut self) -> Vec<Row> {
                let mut out = Vec::new();
                for (e, $($f),*) in self.iter() {
                    out.push((abits((*e).into_any()), vec![$($f.obs()),*]));
                }
                // the same items through the positioning adaptors (nth / skip / step_by / last / count)
                let n = out.len();
                if self.iter().count() != n {
                    crate::rt::violate("C06", "iterator-adaptor", format!("{}::iter().count() != number of items yielded by next()", stringify!($A)));
                }
                if n > 0 {
                    let k = n / 2;
                    let via_nth = self.iter().nth(k).map(|(e, $($f),*)| (abits((*e).into_any()), vec![$($f.obs()),*]));
                    let via_skip: Vec<Row> = self.iter().skip(k).map(|(e, $($f),*)| (abits((*e).into_any()), vec![$($f.obs()),*])).collect();
                    let via_step: Vec<Row> = self.iter().step_by(2).map(|(e, $($f),*)| (abits((*e).into_any()), vec![$($f.obs()),*])).collect();
                    let via_last = self.iter().last().map(|(e, $($f),*)| (abits((*e).into_any()), vec![$($f.obs()),*]));
                    let want_step: Vec<Row> = out.iter().step_by(2).cloned().collect();
                    if via_nth.as_ref() != out.get(k) || via_skip[..] != out[k..] || via_step != want_step || via_last.as_ref() != out.last() {
                        crate::rt::violate("C06", "iterator-adaptor", format!("{}::iter(): nth/skip/step_by/last disagree with plain iteration", stringify!($A)));
                    }
                }
                out
            }
            fn scan_iter_mut(&mut self, write: Option<(usize, usize, u64)>) -> Vec<Row> {
                let mut out = Vec::new();
                let mut n = 0usize;
                for (e, $($f),*) in self.iter_mut() {
                    if let Some((idx, col, p)) = write {
                        if idx == n {
                            let mut i = 0usize;
                            $( if i == col { $f.set(p); } i += 1; )*
                        }
                    }
                    out.push((abits((*e).into_any()), vec![$($f.obs()),*]));
                    n += 1;
                }
                let total = out.len();
                if self.iter_mut().count() != total {
                    crate::rt::violate("C06", "iterator-adaptor", format!("{}::iter_mut().count() != number of items yielded by next()", stringify!($A)));
                }
                if total > 0 {
                    let k = total / 2;
                    let via_nth = self.iter_mut().nth(k).map(|(e, $($f),*)| (abits((*e).into_any()), vec![$($f.obs()),*]));
                    let via_skip: Vec<Row> = self.iter_mut().skip(k).map(|(e, $($f),*)| (abits((*e).into_any()), vec![$($f.obs()),*])).collect();
                    let via_step: Vec<Row> = self.iter_mut().step_by(2).map(|(e, $($f),*)| (abits((*e).into_any()), vec![$($f.obs()),*])).collect();
                    let want_step: Vec<Row> = out.iter().step_by(2).cloned().collect();
                    if via_nth.as_ref() != out.get(k) || via_skip[..] != out[k..] || via_step != want_step {
                        crate::rt::violate("C06", "iterator-adaptor", format!("{}::iter_mut(): nth/skip/step_by disagree with plain iteration", stringify!($A)));
                    }
                }
                out
            }
            fn scan_ent_slices(&mut self) -> Result<Vec<Row>, String> {
                let ents: Vec<Bits> = self.entities().iter().map(|e| abits(e.into_any())).collect();
                let mut out: Vec<Row> = ents.iter().map(|e| (*e, Vec::new())).collect();
                $(
                    {
                        let s = self.get_slice::<$C>();
                        if s.len() != out.len() {
                            return Err(format!("get_slice::<{}>().len()={} but entities().len()={}", stringify!($C), s.len(), out.len()));
                        }
                        for (i, c) in s.iter().enumerate() { out[i].1.push(c.obs()); }
                        let sm = self.get_slice_mut::<$C>();
                        if sm.len() != out.len() {
                            return Err(format!("get_slice_mut::<{}>().len()={} but entities().len()={}", stringify!($C), sm.len(), out.len()));
                        }
                    }
                )*
                Ok(out)
            }
            fn scan_ent_bslices(&self) -> Result<Vec<Row>, String> {
                let ents: Vec<Bits> = self.entities().iter().map(|e| abits(e.into_any())).collect();
                let mut out: Vec<Row> = ents.iter().map(|e| (*e, Vec::new())).collect();
                $(
                    {
                        let s = self.borrow_slice::<$C>();
                        if s.len() != out.len() {
                            return Err(format!("borrow_slice::<{}>().len()={} but entities().len()={}", stringify!($C), s.len(), out.len()));
                        }
                        for (i, c) in s.iter().enumerate() { out[i].1.push(c.obs()); }
                    }
                    {
                        let sm = self.borrow_slice_mut::<$C>();
                        if sm.len() != out.len() {
                            return Err(format!("borrow_slice_mut::<{}>().len()={} but entities().len()={}", stringify!($C), sm.len(), out.len()));
                        }
                    }
                )*
                Ok(out)
            }
            fn scan_all_slices(&mut self) -> Result<Vec<Row>, String> {
                let s = self.get_all_slices_mut();
                let mut out: Vec<Row> = s.entity.iter().map(|e| (abits(e.into_any()), Vec::new())).collect();
                $(
                    if s.$f.len() != out.len() {
                        return Err(format!("slices.{}.len()={} but slices.entity.len()={}", stringify!($f), s.$f.len(), out.len()));
                    }
                    for (i, c) in s.$f.iter().enumerate() { out[i].1.push(c.obs()); }
                )*
                Ok(out)
            }
            fn hold_bslice<'a>(&'a self, col: usize, mutable: bool) -> Box<dyn Guard + 'a> {
                let mut i = 0usize;
                $(
                    if i == col {
                        return if mutable { Box::new(self.borrow_slice_mut::<$C>()) } else { Box::new(self.borrow_slice::<$C>()) };
                    }
                    i += 1;
                )*
                panic!("sim: bad column")
            }
            fn hold_bcomp<'a, 'b>(b: &'a <$A as Archetype>::Borrow<'b>, col: usize, mutable: bool) -> (Obs, Box<dyn Guard + 'a>) {
                let mut i = 0usize;
                $(
                    if i == col {
                        return if mutable {
                            let g = b.component_mut::<$C>();
                            (g.obs(), Box::new(g))
                        } else {
                            let g = b.component::<$C>();
                            (g.obs(), Box::new(g))
                        };
                    }
                    i += 1;
                )*
                panic!("sim: bad column")
            }
            fn dump(&self) -> Dump {
                #[cfg(gecs_verif)]
                {
                    let (version, len, capacity, free_head, slots, entities) = self.data.__verif_dump();
                    Dump { version, len, capacity, free_head, slots, entities }
                }
                #[cfg(not(gecs_verif))]
                { Dump::default() }
            }
            fn preset(&mut self, slot_gen: u32, arch_ver: u32) {
                #[cfg(gecs_verif)]
                { self.data.__verif_preset_generations(slot_gen, arch_ver); }
                #[cfg(not(gecs_verif))]
                { let _ = (slot_gen, arch_ver); panic!("sim: preset needs --cfg gecs_verif"); }
            }
            fn create_lazy(&mut self, p: &[u64], fail: bool) -> Entity<Self> {
                self.create(Lazy::<$A> { p: p.to_vec(), fail, _a: std::marker::PhantomData })
            }
        }

        impl From<Lazy<$A>> for <$A as Archetype>::Components {
            fn from(l: Lazy<$A>) -> Self {
                let c = <$A as ArchSpec>::make(&l.p);
                if l.fail {
                    crate::rt::with(|r| r.fired = Some(crate::rt::Injected::Into));
                    std::panic::panic_any(crate::rt::Injected::Into);
                }
                c
            }
        }

        impl ArchSites<$W> for $A {
            fn find_full(w: &mut $W, borrow: bool, key: Key, write: Option<(usize, u64)>, byref: bool) -> Option<(Row, Option<EntityDirectAny>)> {
                // dynamic keys may also be passed by reference (`&EntityAny`, `&EntityDirectAny`)
                if byref {
                    match (key, borrow) {
                        (Key::A(k), false) => {
                            return ecs_find!(w, &k, |e: &Entity<$A>, d: &EntityDirectAny, $($f: &mut $C),*| {
                                full_visit((*e).into_any(), *d, &mut [$(ColRef::W($f)),*], write)
                            });
                        }
                        (Key::DA(k), false) => {
                            return ecs_find!(w, &k, |e: &Entity<$A>, d: &EntityDirectAny, $($f: &mut $C),*| {
                                full_visit((*e).into_any(), *d, &mut [$(ColRef::W($f)),*], write)
                            });
                        }
                        (Key::A(mut k), true) => {
                            let w: &$W = &*w;
                            return ecs_find_borrow!(w, &mut k, |e: &Entity<$A>, d: &EntityDirectAny, $($f: &mut $C),*| {
                                full_visit((*e).into_any(), *d, &mut [$(ColRef::W($f)),*], write)
                            });
                        }
                        (Key::DA(mut k), true) => {
                            let w: &$W = &*w;
                            return ecs_find_borrow!(w, &mut k, |e: &Entity<$A>, d: &EntityDirectAny, $($f: &mut $C),*| {
                                full_visit((*e).into_any(), *d, &mut [$(ColRef::W($f)),*], write)
                            });
                        }
                        _ => {}
                    }
                }
                // the key is an arbitrary expression: it must be evaluated exactly once
                let mut evals = 0u32;
                let r = if borrow {
                    let w: &$W = &*w;
                    with_key!(key, $A, |k| ecs_find_borrow!(w, { evals += 1; k }, |e: &Entity<$A>, d: &EntityDirectAny, $($f: &mut $C),*| {
                        full_visit((*e).into_any(), *d, &mut [$(ColRef::W($f)),*], write)
                    }))
                } else {
                    with_key!(key, $A, |k| ecs_find!(w, { evals += 1; k }, |e: &Entity<$A>, d: &EntityDirectAny, $($f: &mut $C),*| {
                        full_visit((*e).into_any(), *d, &mut [$(ColRef::W($f)),*], write)
                    }))
                };
                if evals != 1 {
                    crate::rt::violate("C01", "find-key-expression-evaluations", format!("the key expression of a find macro was evaluated {} times", evals));
                }
                r
            }
            fn iter_full(w: &mut $W, borrow: bool, write: Option<(usize, usize, u64)>) -> Vec<(Row, Option<EntityDirectAny>)> {
                let mut out = Vec::new();
                let mut n = 0usize;
                if borrow {
                    let w: &$W = &*w;
                    ecs_iter_borrow!(w, |e: &Entity<$A>, d: &EntityDirectAny, $($f: &mut $C),*| {
                        let wr = match write { Some((idx, c, p)) if idx == n => Some((c, p)), _ => None };
                        n += 1;
                        out.push(full_visit((*e).into_any(), *d, &mut [$(ColRef::W($f)),*], wr));
                    });
                } else {
                    ecs_iter!(w, |e: &Entity<$A>, d: &EntityDirectAny, $($f: &mut $C),*| {
                        let wr = match write { Some((idx, c, p)) if idx == n => Some((c, p)), _ => None };
                        n += 1;
                        out.push(full_visit((*e).into_any(), *d, &mut [$(ColRef::W($f)),*], wr));
                    });
                }
                out
            }
            fn acc_find_borrow(w: &$W, col: usize, mutable: bool, key: Key, k: &mut dyn FnMut(Obs)) -> bool {
                let mut i = 0usize;
                $(
                    if i == col {
                        return if mutable {
                            with_key!(key, $A, |kk| ecs_find_borrow!(w, kk, |_e: &Entity<$A>, c: &mut $C| { k(c.obs()) })).is_some()
                        } else {
                            with_key!(key, $A, |kk| ecs_find_borrow!(w, kk, |_e: &Entity<$A>, c: &$C| { k(c.obs()) })).is_some()
                        };
                    }
                    i += 1;
                )*
                panic!("sim: bad column")
            }
            fn acc_iter_borrow(w: &$W, col: usize, mutable: bool, k: &mut dyn FnMut(Bits, Obs) -> bool) {
                let mut i = 0usize;
                $(
                    if i == col {
                        if mutable {
                            ecs_iter_borrow!(w, |e: &Entity<$A>, c: &mut $C| {
                                if k(abits((*e).into_any()), c.obs()) { EcsStep::Continue } else { EcsStep::Break }
                            });
                        } else {
                            ecs_iter_borrow!(w, |e: &Entity<$A>, c: &$C| {
                                if k(abits((*e).into_any()), c.obs()) { EcsStep::Continue } else { EcsStep::Break }
                            });
                        }
                        return;
                    }
                    i += 1;
                )*
                panic!("sim: bad column")
            }
        }
    };
}

/// A conversion target for `create(impl Into<Components>)` that may unwind (F10).
pub struct Lazy<A> {
    pub p: Vec<u64>,
    pub fail: bool,
    pub _a: std::marker::PhantomData<fn() -> A>,
}

/// A query macro on the archetype `$N` - one the enclosing query does not match - run from inside
/// the closure of that query (the macros borrow `world.<archetype>` field-wise, so this is legal).
macro_rules! site_nested {
    ($w:ident, $hook:ident, $N:ident) => {
        if let Some(req) = $hook.nested_req() {
            match req.kind {
                0 => {
                    ecs_iter!($w, |e: &Entity<$N>, d: &EntityDirect<$N>| {
                        $hook.nested_visit(abits((*e).into_any()), Some((*d).into_any()), <MatchedArchetype as Archetype>::ARCHETYPE_ID).iter()
                    });
                    $hook.nested_done(None);
                }
                1 => {
                    ecs_iter_destroy!($w, |e: &EntityAny, _t: &Entity<$N>, d: &EntityDirectAny| {
                        $hook.nested_visit(abits(*e), Some(*d), <MatchedArchetype as Archetype>::ARCHETYPE_ID).destroy()
                    });
                    $hook.nested_done(None);
                }
                _ => {
                    let k = req.key.expect("sim: nested find needs a key");
                    let r = ecs_find!($w, k, |e: &Entity<$N>, d: &EntityDirect<_>| {
                        let _ = $hook.nested_visit(abits((*e).into_any()), Some((*d).into_any()), <MatchedArchetype as Archetype>::ARCHETYPE_ID);
                    });
                    $hook.nested_done(Some(r.is_some()));
                }
            }
        }
    };
}

/// One multi-archetype query site: a fixed parameter list stamped out for all five macros.
macro_rules! site {
    (
        $S:ident, $W:ident, $w:ident,
        params = [$($params:tt)*],
        ent = $ent:expr,
        dir = $dir:expr,
        cols = [$($cols:expr),*],
        other = $other:expr
        $(, nested = $N:ident)?
    ) => {
        pub struct $S;
        impl $S {
            pub fn run_mut($w: &mut $W, mac: QMacro, key: Option<Key>, hook: &mut dyn VisitHook<$W>) -> Option<Step> {
                match mac {
                    QMacro::Iter => {
                        ecs_iter!($w, |$($params)*| {
                            let st = hook.visit(Visit { matched: <MatchedArchetype as Archetype>::ARCHETYPE_ID, world: None, other: $other, ent: $ent, dir: $dir, cols: &mut [$($cols),*] });
                            $( site_nested!($w, hook, $N); )?
                            st.iter()
                        });
                        None
                    }
                    QMacro::IterDestroy => {
                        ecs_iter_destroy!($w, |$($params)*| {
                            let st = hook.visit(Visit { matched: <MatchedArchetype as Archetype>::ARCHETYPE_ID, world: None, other: $other, ent: $ent, dir: $dir, cols: &mut [$($cols),*] });
                            $( site_nested!($w, hook, $N); )?
                            st.destroy()
                        });
                        None
                    }
                    QMacro::IterDestroyUnit => {
                        // closure returning `()`: From<()> for EcsStepDestroy (always Continue)
                        ecs_iter_destroy!($w, |$($params)*| {
                            let _ = hook.visit(Visit { matched: <MatchedArchetype as Archetype>::ARCHETYPE_ID, world: None, other: $other, ent: $ent, dir: $dir, cols: &mut [$($cols),*] });
                            $( site_nested!($w, hook, $N); )?
                        });
                        None
                    }
                    QMacro::IterDestroyStep => {
                        // closure returning EcsStep: From<EcsStep> for EcsStepDestroy
                        ecs_iter_destroy!($w, |$($params)*| {
                            let st = hook.visit(Visit { matched: <MatchedArchetype as Archetype>::ARCHETYPE_ID, world: None, other: $other, ent: $ent, dir: $dir, cols: &mut [$($cols),*] });
                            $( site_nested!($w, hook, $N); )?
                            st.iter()
                        });
                        None
                    }
                    QMacro::Find => match key.expect("sim: find needs a key") {
                        Key::A(k) => ecs_find!($w, k, |$($params)*| {
                            let st = hook.visit(Visit { matched: <MatchedArchetype as Archetype>::ARCHETYPE_ID, world: None, other: $other, ent: $ent, dir: $dir, cols: &mut [$($cols),*] });
                            $( site_nested!($w, hook, $N); )?
                            st
                        }),
                        Key::DA(k) => ecs_find!($w, k, |$($params)*| {
                            let st = hook.visit(Visit { matched: <MatchedArchetype as Archetype>::ARCHETYPE_ID, world: None, other: $other, ent: $ent, dir: $dir, cols: &mut [$($cols),*] });
                            $( site_nested!($w, hook, $N); )?
                            st
                        }),
                        _ => panic!("sim: site find takes dynamic keys only"),
                    },
                    _ => panic!("sim: borrow-mode macro on run_mut"),
                }
            }
            pub fn run_borrow($w: &$W, mac: QMacro, key: Option<Key>, hook: &mut dyn VisitHook<$W>) -> Option<Step> {
                match mac {
                    QMacro::IterBorrow => {
                        ecs_iter_borrow!($w, |$($params)*| {
                            hook.visit(Visit { matched: <MatchedArchetype as Archetype>::ARCHETYPE_ID, world: Some($w), other: None, ent: $ent, dir: $dir, cols: &mut [$($cols),*] }).iter()
                        });
                        None
                    }
                    QMacro::FindBorrow => match key.expect("sim: find needs a key") {
                        Key::A(k) => ecs_find_borrow!($w, k, |$($params)*| {
                            hook.visit(Visit { matched: <MatchedArchetype as Archetype>::ARCHETYPE_ID, world: Some($w), other: None, ent: $ent, dir: $dir, cols: &mut [$($cols),*] })
                        }),
                        Key::DA(k) => ecs_find_borrow!($w, k, |$($params)*| {
                            hook.visit(Visit { matched: <MatchedArchetype as Archetype>::ARCHETYPE_ID, world: Some($w), other: None, ent: $ent, dir: $dir, cols: &mut [$($cols),*] })
                        }),
                        _ => panic!("sim: site find takes dynamic keys only"),
                    },
                    _ => panic!("sim: mut-mode macro on run_borrow"),
                }
            }
        }
    };
}

macro_rules! world_spec {
    (
        $W:ident, $name:expr,
        archs = [$(($idx:expr, $A:ident, $field:ident)),* $(,)?],
        sites = [$(($sidx:expr, $S:ident, $info:expr)),* $(,)?]
        $(, extra = { $($extra:tt)* })?
    ) => {
        static DRVS: &[&dyn ArchDrv<$W>] = &[$(&Drv::<$A>(std::marker::PhantomData)),*];
        static SITES: &[SiteInfo] = &[$($info),*];

        impl WorldSpec for $W {
            const NAME: &'static str = $name;
            fn archs() -> &'static [&'static dyn ArchDrv<Self>] {
                DRVS
            }
            fn sites() -> &'static [SiteInfo] {
                SITES
            }
            fn with_caps(caps: &[usize]) -> Self {
                // all-zero capacities: the other two constructors must be equivalent
                if caps.iter().all(|c| *c == 0) {
                    return <$W as World>::new();
                }
                let mut c = <$W as World>::Capacities::default();
                $( c.$field = caps[$idx]; )*
                <$W as World>::with_capacity(c)
            }
            fn fresh_default() -> Self {
                <$W as Default>::default()
            }
            fn find_full(&mut self, ai: usize, borrow: bool, key: Key, write: Option<(usize, u64)>, byref: bool) -> Option<(Row, Option<EntityDirectAny>)> {
                match ai {
                    $( $idx => <$A as ArchSites<$W>>::find_full(self, borrow, key, write, byref), )*
                    _ => panic!("sim: bad archetype index"),
                }
            }
            fn iter_full(&mut self, ai: usize, borrow: bool, write: Option<(usize, usize, u64)>) -> Vec<(Row, Option<EntityDirectAny>)> {
                match ai {
                    $( $idx => <$A as ArchSites<$W>>::iter_full(self, borrow, write), )*
                    _ => panic!("sim: bad archetype index"),
                }
            }
            fn query_mut(&mut self, site: usize, mac: QMacro, key: Option<Key>, hook: &mut dyn VisitHook<Self>) -> Option<Step> {
                match site {
                    $( $sidx => $S::run_mut(self, mac, key, hook), )*
                    _ => panic!("sim: bad site index"),
                }
            }
            fn find_unit(&mut self, borrow: bool, key: Key) -> bool {
                match (key, borrow) {
                    (Key::A(k), false) => ecs_find!(self, k, || true).unwrap_or(false),
                    (Key::DA(k), false) => ecs_find!(self, k, || true).unwrap_or(false),
                    (Key::A(k), true) => {
                        let w: &Self = &*self;
                        ecs_find_borrow!(w, k, || true).unwrap_or(false)
                    }
                    (Key::DA(k), true) => {
                        let w: &Self = &*self;
                        ecs_find_borrow!(w, k, || true).unwrap_or(false)
                    }
                    _ => panic!("sim: find_unit takes dynamic keys"),
                }
            }
            fn query_borrow(&self, site: usize, mac: QMacro, key: Option<Key>, hook: &mut dyn VisitHook<Self>) -> Option<Step> {
                match site {
                    $( $sidx => $S::run_borrow(self, mac, key, hook), )*
                    _ => panic!("sim: bad site index"),
                }
            }
            fn acc_find_borrow(&self, ai: usize, col: usize, mutable: bool, key: Key, k: &mut dyn FnMut(Obs)) -> bool {
                match ai {
                    $( $idx => <$A as ArchSites<$W>>::acc_find_borrow(self, col, mutable, key, k), )*
                    _ => panic!("sim: bad archetype index"),
                }
            }
            fn acc_iter_borrow(&self, ai: usize, col: usize, mutable: bool, k: &mut dyn FnMut(Bits, Obs) -> bool) {
                match ai {
                    $( $idx => <$A as ArchSites<$W>>::acc_iter_borrow(self, col, mutable, k), )*
                    _ => panic!("sim: bad archetype index"),
                }
            }
            $($($extra)*)?
            #[cfg(feature = "events")]
            fn w_created(&self) -> Result<Vec<Bits>, String> {
                let v = collect_events(self.iter_created())?;
                check_event_adaptors(&v, || self.iter_created())?;
                Ok(v)
            }
            #[cfg(feature = "events")]
            fn w_destroyed(&self) -> Result<Vec<Bits>, String> {
                let v = collect_events(self.iter_destroyed())?;
                check_event_adaptors(&v, || self.iter_destroyed())?;
                Ok(v)
            }
            #[cfg(feature = "events")]
            fn w_clear_events(&mut self) {
                World::clear_events(self)
            }
        }
    };
}

/// Drains a world-level event iterator, checking `size_hint` at every position.
#[cfg(feature = "events")]
pub fn collect_events<'a>(mut it: impl Iterator<Item = &'a gecs::prelude::EntityAny>) -> Result<Vec<Bits>, String> {
    // First pass over a clone is not possible (opaque type), so count by draining and check that
    // each hint equals the number of items that actually followed.
    let mut hints = Vec::new();
    let mut out = Vec::new();
    loop {
        hints.push(it.size_hint());
        match it.next() {
            Some(e) => out.push(abits(*e)),
            None => break,
        }
    }
    let post = it.size_hint();
    if it.next().is_some() {
        return Err("event iterator yielded an item after returning None".to_string());
    }
    let n = out.len();
    for (i, h) in hints.iter().enumerate() {
        let remaining = n - i.min(n);
        if *h != (remaining, Some(remaining)) {
            return Err(format!("size_hint at position {} is {:?} but {} items remained (total {})", i, h, remaining, n));
        }
    }
    if post != (0, Some(0)) {
        return Err(format!("size_hint after exhaustion is {:?}", post));
    }
    Ok(out)
}

/// The world-level event iterator positioned through nth / skip / step_by / count / last must
/// yield the same items as plain `next()` calls, for every split point.
#[cfg(feature = "events")]
pub fn check_event_adaptors<'a, I: Iterator<Item = &'a gecs::prelude::EntityAny>>(plain: &[Bits], mk: impl Fn() -> I) -> Result<(), String> {
    let n = plain.len();
    if mk().count() != n {
        return Err(format!("count() = {} but next() yielded {} items", mk().count(), n));
    }
    if mk().last().map(|e| abits(*e)) != plain.last().copied() {
        return Err("last() disagrees with plain iteration".to_string());
    }
    for k in 0..=n.min(12) {
        let via_skip: Vec<Bits> = mk().skip(k).map(|e| abits(*e)).collect();
        if via_skip[..] != plain[k.min(n)..] {
            return Err(format!("skip({}) yielded {:x?}, plain iteration from there is {:x?}", k, via_skip, &plain[k.min(n)..]));
        }
        let via_nth = mk().nth(k).map(|e| abits(*e));
        if via_nth != plain.get(k).copied() {
            return Err(format!("nth({}) = {:x?}, plain iteration has {:x?}", k, via_nth, plain.get(k)));
        }
    }
    let via_step: Vec<Bits> = mk().step_by(2).map(|e| abits(*e)).collect();
    let want: Vec<Bits> = plain.iter().step_by(2).copied().collect();
    if via_step != want {
        return Err("step_by(2) disagrees with plain iteration".to_string());
    }
    // "an exact size_hint at every position": also at positions reached by jumping. After nth(k)
    // exactly n - (k + 1) items remain (none when the jump ran past the end), the hint must say so,
    // and what follows must be the rest of the plain sequence.
    for k in 0..=(n.min(12) + 1) {
        let mut it = mk();
        let _ = it.nth(k);
        let rem = n.saturating_sub(k + 1);
        let h = it.size_hint();
        if h != (rem, Some(rem)) {
            return Err(format!("size_hint after nth({}) is {:?} but {} of {} items remain", k, h, rem, n));
        }
        let rest: Vec<Bits> = it.map(|e| abits(*e)).collect();
        if rest[..] != plain[(k + 1).min(n)..] {
            return Err(format!("after nth({}) the iterator yielded {:x?}, plain iteration from there is {:x?}", k, rest, &plain[(k + 1).min(n)..]));
        }
    }
    // a mixed walk: jumps of 0, 1, 2, 0, 3, ... with the hint checked at every position reached
    for phase in 0..3usize {
        let mut it = mk();
        let mut pos = 0usize;
        let mut j = phase;
        loop {
            let h = it.size_hint();
            let rem = n - pos.min(n);
            if h != (rem, Some(rem)) {
                return Err(format!("size_hint at position {} (reached by nth jumps, phase {}) is {:?} but {} items remain", pos, phase, h, rem));
            }
            let step = j % 4;
            j += 1;
            let got = it.nth(step).map(|e| abits(*e));
            if got != plain.get(pos + step).copied() {
                return Err(format!("nth({}) from position {} = {:x?}, plain iteration has {:x?}", step, pos, got, plain.get(pos + step)));
            }
            pos += step + 1;
            if got.is_none() {
                if it.size_hint() != (0, Some(0)) {
                    return Err(format!("size_hint after running past the end is {:?}", it.size_hint()));
                }
                break;
            }
        }
    }
    Ok(())
}

// =============================================================================================
// WA: the mixed main world. Six archetypes, non-contiguous explicit ids, overlapping columns.
pub mod wa {
    use super::*;
    use gecs::prelude::*;

    ecs_world! {
        ecs_name!(WA);

        ecs_archetype!(ArchP, CompA);
        ecs_archetype!(ArchQ, CompA, CompB);
        #[archetype_id(7)]
        ecs_archetype!(ArchR, CompB, CompS, CompH);
        ecs_archetype!(ArchT, CompA, CompH, CompL, CompZ, CompU);
        #[archetype_id(200)]
        ecs_archetype!(ArchV, CompL, CompY, CompC);
        #[archetype_id(255)]
        ecs_archetype!(ArchX, CompZ);
    }

    arch_spec!(WA, ArchP, [(CompA, comp_a)]);
    arch_spec!(WA, ArchQ, [(CompA, comp_a), (CompB, comp_b)]);
    arch_spec!(WA, ArchR, [(CompB, comp_b), (CompS, comp_s), (CompH, comp_h)]);
    arch_spec!(WA, ArchT, [(CompA, comp_a), (CompH, comp_h), (CompL, comp_l), (CompZ, comp_z), (CompU, comp_u)]);
    arch_spec!(WA, ArchV, [(CompL, comp_l), (CompY, comp_y), (CompC, comp_c)]);
    arch_spec!(WA, ArchX, [(CompZ, comp_z)]);

    site!(S0, WA, w,
        params = [e: &EntityAny, a: &mut CompA],
        ent = abits(*e), dir = None, cols = [ColRef::W(a)],
        other = Some(&mut w.arch_r as &mut dyn ArchDyn),
        nested = ArchR);
    site!(S1, WA, w,
        params = [e: &Entity<_>, d: &EntityDirect<_>, b: &mut CompB],
        ent = abits((*e).into_any()), dir = Some((*d).into_any()), cols = [ColRef::W(b)],
        other = Some(&mut w.arch_p as &mut dyn ArchDyn),
        nested = ArchP);
    site!(S2, WA, w,
        params = [e: &EntityAny, d: &EntityDirectAny, x: &mut OneOf<CompS, CompL>],
        ent = abits(*e), dir = Some(*d), cols = [ColRef::W(x)],
        other = Some(&mut w.arch_q as &mut dyn ArchDyn),
        nested = ArchQ);
    site!(S3, WA, w,
        params = [e: &Entity<ArchT>, d: &EntityDirect<ArchT>, a: &CompA, h: &mut CompH, u: &mut CompU],
        ent = abits((*e).into_any()), dir = Some((*d).into_any()), cols = [ColRef::R(a), ColRef::W(h), ColRef::W(u)],
        other = Some(&mut w.arch_q as &mut dyn ArchDyn),
        nested = ArchQ);
    site!(S4, WA, w,
        params = [e: &EntityAny, d: &EntityDirectAny],
        ent = abits(*e), dir = Some(*d), cols = [],
        other = None);
    site!(S5, WA, w,
        params = [e: &EntityAny, h: &mut CompH],
        ent = abits(*e), dir = None, cols = [ColRef::W(h)],
        other = Some(&mut w.arch_x as &mut dyn ArchDyn),
        nested = ArchX);
    site!(S6, WA, w,
        params = [e: &Entity<_>, z: &CompZ],
        ent = abits((*e).into_any()), dir = None, cols = [ColRef::R(z)],
        other = Some(&mut w.arch_v as &mut dyn ArchDyn),
        nested = ArchV);

    site!(S7, WA, w,
        params = [e: &EntityAny, d: &EntityDirectAny, x: &OneOf<CompB, CompL>],
        ent = abits(*e), dir = Some(*d), cols = [ColRef::R(x)],
        other = Some(&mut w.arch_p as &mut dyn ArchDyn),
        nested = ArchP);

    site!(S8, WA, w,
        params = [x: &OneOf<CompS, CompU>, d: &EntityDirectAny, e: &Entity<_>, h: &mut CompH],
        ent = abits((*e).into_any()), dir = Some(*d), cols = [ColRef::R(x), ColRef::W(h)],
        other = Some(&mut w.arch_v as &mut dyn ArchDyn),
        nested = ArchV);
    site!(S9, WA, w,
        params = [a: &mut CompA, e: &EntityAny],
        ent = abits(*e), dir = None, cols = [ColRef::W(a)],
        other = None);

    site!(S10, WA, w,
        params = [e: &EntityAny, x: &mut OneOf<CompB, CompL>, h: &mut CompH],
        ent = abits(*e), dir = None, cols = [ColRef::W(x), ColRef::W(h)],
        other = Some(&mut w.arch_p as &mut dyn ArchDyn),
        nested = ArchP);
    // a cfg-disabled parameter behaves as if it had not been written: this site must match
    // exactly what `|e: &EntityAny, a: &mut CompA|` matches (P, Q, T), not only ArchT
    site!(S11, WA, w,
        params = [e: &EntityAny, #[cfg(any())] _off: &EntityDirect<ArchT>, #[cfg(all())] a: &mut CompA, #[cfg(any())] _off2: &CompS],
        ent = abits(*e), dir = None, cols = [ColRef::W(a)],
        other = None);

    // two OneOf parameters in one closure, resolved independently per matched archetype
    site!(S12, WA, w,
        params = [e: &EntityAny, x: &OneOf<CompB, CompZ>, y: &mut OneOf<CompS, CompU>],
        ent = abits(*e), dir = None, cols = [ColRef::R(x), ColRef::W(y)],
        other = Some(&mut w.arch_p as &mut dyn ArchDyn),
        nested = ArchP);

    world_spec!(WA, "WA",
        archs = [(0, ArchP, arch_p), (1, ArchQ, arch_q), (2, ArchR, arch_r), (3, ArchT, arch_t), (4, ArchV, arch_v), (5, ArchX, arch_x)],
        sites = [
            (0, S0, SiteInfo { name: "S0 |&EntityAny, &mut CompA|", matches: &[0, 1, 3], cols: &[&[0], &[0], &[0]], muts: &[true], has_dir: false, other: Some(2) }),
            (1, S1, SiteInfo { name: "S1 |&Entity<_>, &EntityDirect<_>, &mut CompB|", matches: &[1, 2], cols: &[&[1], &[0]], muts: &[true], has_dir: true, other: Some(0) }),
            (2, S2, SiteInfo { name: "S2 |&EntityAny, &EntityDirectAny, &mut OneOf<CompS, CompL>|", matches: &[2, 3, 4], cols: &[&[1], &[2], &[0]], muts: &[true], has_dir: true, other: Some(1) }),
            (3, S3, SiteInfo { name: "S3 |&Entity<ArchT>, &EntityDirect<ArchT>, &CompA, &mut CompH, &mut CompU|", matches: &[3], cols: &[&[0, 1, 4]], muts: &[false, true, true], has_dir: true, other: Some(1) }),
            (4, S4, SiteInfo { name: "S4 |&EntityAny, &EntityDirectAny|", matches: &[0, 1, 2, 3, 4, 5], cols: &[&[], &[], &[], &[], &[], &[]], muts: &[], has_dir: true, other: None }),
            (5, S5, SiteInfo { name: "S5 |&EntityAny, &mut CompH|", matches: &[2, 3], cols: &[&[2], &[1]], muts: &[true], has_dir: false, other: Some(5) }),
            (6, S6, SiteInfo { name: "S6 |&Entity<_>, &CompZ|", matches: &[3, 5], cols: &[&[3], &[0]], muts: &[false], has_dir: false, other: Some(4) }),
            (7, S7, SiteInfo { name: "S7 |&EntityAny, &EntityDirectAny, &OneOf<CompB, CompL>|", matches: &[1, 2, 3, 4], cols: &[&[1], &[0], &[2], &[0]], muts: &[false], has_dir: true, other: Some(0) }),
            (8, S8, SiteInfo { name: "S8 |&OneOf<CompS, CompU>, &EntityDirectAny, &Entity<_>, &mut CompH|", matches: &[2, 3], cols: &[&[1, 2], &[4, 1]], muts: &[false, true], has_dir: true, other: Some(4) }),
            (9, S9, SiteInfo { name: "S9 |&mut CompA, &EntityAny|", matches: &[0, 1, 3], cols: &[&[0], &[0], &[0]], muts: &[true], has_dir: false, other: None }),
            (10, S10, SiteInfo { name: "S10 |&EntityAny, &mut OneOf<CompB, CompL>, &mut CompH|", matches: &[2, 3], cols: &[&[0, 2], &[2, 1]], muts: &[true, true], has_dir: false, other: Some(0) }),
            (11, S11, SiteInfo { name: "S11 |&EntityAny, #[cfg(any())] &EntityDirect<ArchT>, &mut CompA, #[cfg(any())] &CompS|", matches: &[0, 1, 3], cols: &[&[0], &[0], &[0]], muts: &[true], has_dir: false, other: None }),
            (12, S12, SiteInfo { name: "S12 |&EntityAny, &OneOf<CompB, CompZ>, &mut OneOf<CompS, CompU>|", matches: &[2, 3], cols: &[&[0, 1], &[3, 4]], muts: &[false, true], has_dir: false, other: Some(0) }),
        ],
        extra = {
            fn acc_double_use(&self, iter: bool, key: Option<Key>, k: &mut dyn FnMut()) -> Option<(usize, usize)> {
                // ArchQ (index 1), column 0 (CompA), named twice in one borrow-mode query
                if iter {
                    ecs_iter_borrow!(self, |_e: &Entity<ArchQ>, _a: &CompA, _b: &mut CompA| { k(); });
                } else if let Some(Key::A(any)) = key {
                    ecs_find_borrow!(self, any, |_e: &Entity<ArchQ>, _a: &CompA, _b: &mut CompA| { k(); });
                }
                Some((1, 0))
            }
        }
    );
}

// =============================================================================================
// Tk aliases for the wide archetypes
pub type Kaa = Tk<0>;
pub type Kab = Tk<1>;
pub type Kac = Tk<2>;
pub type Kad = Tk<3>;
pub type Kae = Tk<4>;
pub type Kaf = Tk<5>;
pub type Kag = Tk<6>;
pub type Kah = Tk<7>;
pub type Kai = Tk<8>;
pub type Kaj = Tk<9>;
pub type Kak = Tk<10>;
pub type Kal = Tk<11>;
pub type Kam = Tk<12>;
pub type Kan = Tk<13>;
pub type Kao = Tk<14>;
pub type Kap = Tk<15>;
pub type Kaq = Tk<16>;
pub type Kar = Tk<17>;
pub type Kas = Tk<18>;
pub type Kat = Tk<19>;
pub type Kau = Tk<20>;
pub type Kav = Tk<21>;
pub type Kaw = Tk<22>;
pub type Kax = Tk<23>;
pub type Kay = Tk<24>;
pub type Kaz = Tk<25>;
pub type Kba = Tk<26>;
pub type Kbb = Tk<27>;
pub type Kbc = Tk<28>;
pub type Kbd = Tk<29>;
pub type Kbe = Tk<30>;
pub type Kbf = Tk<31>;

// W16: the non-feature maximum of 16 columns, plus a single-column archetype.
pub mod w16 {
    use super::*;
    use gecs::prelude::*;

    ecs_world! {
        ecs_name!(W16);
        #[archetype_id(9)]
        ecs_archetype!(ArchWide, Kaa, Kab, Kac, Kad, Kae, Kaf, Kag, Kah, Kai, Kaj, Kak, Kal, Kam, Kan, Kao, Kap);
        #[archetype_id(2)]
        ecs_archetype!(ArchOne, CompB);
    }

    arch_spec!(W16, ArchWide, [(Kaa, kaa), (Kab, kab), (Kac, kac), (Kad, kad), (Kae, kae), (Kaf, kaf), (Kag, kag), (Kah, kah), (Kai, kai), (Kaj, kaj), (Kak, kak), (Kal, kal), (Kam, kam), (Kan, kan), (Kao, kao), (Kap, kap)]);
    arch_spec!(W16, ArchOne, [(CompB, comp_b)]);

    site!(S0, W16, w,
        params = [e: &EntityAny, d: &EntityDirectAny, a: &mut Kaa, p: &mut Kap],
        ent = abits(*e), dir = Some(*d), cols = [ColRef::W(a), ColRef::W(p)],
        other = Some(&mut w.arch_one as &mut dyn ArchDyn),
        nested = ArchOne);
    site!(S1, W16, w,
        params = [e: &EntityAny, d: &EntityDirectAny],
        ent = abits(*e), dir = Some(*d), cols = [],
        other = None);

    world_spec!(W16, "W16",
        archs = [(0, ArchWide, arch_wide), (1, ArchOne, arch_one)],
        sites = [
            (0, S0, SiteInfo { name: "S0 |&EntityAny, &EntityDirectAny, &mut Kaa, &mut Kap|", matches: &[0], cols: &[&[0, 15]], muts: &[true, true], has_dir: true, other: Some(1) }),
            (1, S1, SiteInfo { name: "S1 |&EntityAny, &EntityDirectAny|", matches: &[0, 1], cols: &[&[], &[]], muts: &[], has_dir: true, other: None }),
        ]
    );
}

// WZ: a single zero-sized untracked column (cheap boundary runs).
pub mod wz {
    use super::*;
    use gecs::prelude::*;

    ecs_world! {
        ecs_name!(WZ);
        #[archetype_id(42)]
        ecs_archetype!(ArchZ, CompY);
    }

    arch_spec!(WZ, ArchZ, [(CompY, comp_y)]);

    site!(S0, WZ, w,
        params = [e: &EntityAny, d: &EntityDirectAny, y: &mut CompY],
        ent = abits(*e), dir = Some(*d), cols = [ColRef::W(y)],
        other = None);

    world_spec!(WZ, "WZ",
        archs = [(0, ArchZ, arch_z)],
        sites = [
            (0, S0, SiteInfo { name: "S0 |&EntityAny, &EntityDirectAny, &mut CompY|", matches: &[0], cols: &[&[0]], muts: &[true], has_dir: true, other: None }),
        ]
    );
}

// WF: zero-sized columns in FIRST position (with and without Drop) next to data columns, and a
// one-byte archetype; ids 5, 6 and (by the discriminant rule) 7.
pub mod wf {
    use super::*;
    use gecs::prelude::*;

    ecs_world! {
        ecs_name!(WF);
        #[archetype_id(5)]
        ecs_archetype!(ArchZF, CompZ, CompB);
        // a disabled archetype and disabled components behave as absent: ids, column order and
        // query matching of everything else are as if they had not been written
        #[cfg(any())]
        ecs_archetype!(ArchOff, CompA, CompB);
        ecs_archetype!(ArchYF, CompY, #[cfg(any())] CompB, CompA, CompZ);
        ecs_archetype!(ArchU, #[cfg(any())] CompS, CompU, #[cfg(all())] #[cfg(any())] CompH);
        #[archetype_id(77)]
        ecs_archetype!(ArchOdd, CompS5, CompA16, CompS7, CompP12, CompA32, CompS6);
    }

    arch_spec!(WF, ArchZF, [(CompZ, comp_z), (CompB, comp_b)]);
    arch_spec!(WF, ArchYF, [(CompY, comp_y), (CompA, comp_a), (CompZ, comp_z)]);
    arch_spec!(WF, ArchU, [(CompU, comp_u)]);
    arch_spec!(WF, ArchOdd, [(CompS5, comp_s_5), (CompA16, comp_a_16), (CompS7, comp_s_7), (CompP12, comp_p_12), (CompA32, comp_a_32), (CompS6, comp_s_6)]);

    site!(S0, WF, w,
        params = [e: &EntityAny, d: &EntityDirectAny, z: &mut CompZ],
        ent = abits(*e), dir = Some(*d), cols = [ColRef::W(z)],
        other = Some(&mut w.arch_u as &mut dyn ArchDyn),
        nested = ArchU);
    site!(S1, WF, w,
        params = [e: &Entity<_>, b: &mut CompB],
        ent = abits((*e).into_any()), dir = None, cols = [ColRef::W(b)],
        other = None);
    site!(S2, WF, w,
        params = [e: &EntityAny, d: &EntityDirectAny],
        ent = abits(*e), dir = Some(*d), cols = [],
        other = None);
    site!(S3, WF, w,
        params = [y: &CompY, d: &EntityDirect<_>, e: &EntityAny, a: &mut CompA],
        ent = abits(*e), dir = Some((*d).into_any()), cols = [ColRef::R(y), ColRef::W(a)],
        other = Some(&mut w.arch_zf as &mut dyn ArchDyn),
        nested = ArchZF);

    site!(S4, WF, w,
        params = [e: &EntityAny, d: &EntityDirectAny, s: &mut CompS7, a: &CompA32, p: &mut CompP12],
        ent = abits(*e), dir = Some(*d), cols = [ColRef::W(s), ColRef::R(a), ColRef::W(p)],
        other = Some(&mut w.arch_yf as &mut dyn ArchDyn),
        nested = ArchYF);

    world_spec!(WF, "WF",
        archs = [(0, ArchZF, arch_zf), (1, ArchYF, arch_yf), (2, ArchU, arch_u), (3, ArchOdd, arch_odd)],
        sites = [
            (0, S0, SiteInfo { name: "S0 |&EntityAny, &EntityDirectAny, &mut CompZ|", matches: &[0, 1], cols: &[&[0], &[2]], muts: &[true], has_dir: true, other: Some(2) }),
            (1, S1, SiteInfo { name: "S1 |&Entity<_>, &mut CompB|", matches: &[0], cols: &[&[1]], muts: &[true], has_dir: false, other: None }),
            (2, S2, SiteInfo { name: "S2 |&EntityAny, &EntityDirectAny|", matches: &[0, 1, 2, 3], cols: &[&[], &[], &[], &[]], muts: &[], has_dir: true, other: None }),
            (3, S3, SiteInfo { name: "S3 |&CompY, &EntityDirect<_>, &EntityAny, &mut CompA|", matches: &[1], cols: &[&[0, 1]], muts: &[false, true], has_dir: true, other: Some(0) }),
            (4, S4, SiteInfo { name: "S4 |&EntityAny, &EntityDirectAny, &mut CompS7, &CompA32, &mut CompP12|", matches: &[3], cols: &[&[2, 4, 3]], muts: &[true, false, true], has_dir: true, other: Some(1) }),
        ]
    );
}

// W32: 17 and 32 columns (only with the 32_components feature).
#[cfg(feature = "32_components")]
pub mod w32 {
    use super::*;
    use gecs::prelude::*;

    ecs_world! {
        ecs_name!(W32);
        ecs_archetype!(ArchW17, Kaa, Kab, Kac, Kad, Kae, Kaf, Kag, Kah, Kai, Kaj, Kak, Kal, Kam, Kan, Kao, Kap, Kaq);
        #[archetype_id(9)]
        ecs_archetype!(ArchW32, Kaa, Kab, Kac, Kad, Kae, Kaf, Kag, Kah, Kai, Kaj, Kak, Kal, Kam, Kan, Kao, Kap, Kaq, Kar, Kas, Kat, Kau, Kav, Kaw, Kax, Kay, Kaz, Kba, Kbb, Kbc, Kbd, Kbe, Kbf);
    }

    arch_spec!(W32, ArchW17, [(Kaa, kaa), (Kab, kab), (Kac, kac), (Kad, kad), (Kae, kae), (Kaf, kaf), (Kag, kag), (Kah, kah), (Kai, kai), (Kaj, kaj), (Kak, kak), (Kal, kal), (Kam, kam), (Kan, kan), (Kao, kao), (Kap, kap), (Kaq, kaq)]);
    arch_spec!(W32, ArchW32, [(Kaa, kaa), (Kab, kab), (Kac, kac), (Kad, kad), (Kae, kae), (Kaf, kaf), (Kag, kag), (Kah, kah), (Kai, kai), (Kaj, kaj), (Kak, kak), (Kal, kal), (Kam, kam), (Kan, kan), (Kao, kao), (Kap, kap), (Kaq, kaq), (Kar, kar), (Kas, kas), (Kat, kat), (Kau, kau), (Kav, kav), (Kaw, kaw), (Kax, kax), (Kay, kay), (Kaz, kaz), (Kba, kba), (Kbb, kbb), (Kbc, kbc), (Kbd, kbd), (Kbe, kbe), (Kbf, kbf)]);

    site!(S0, W32, w,
        params = [e: &EntityAny, d: &EntityDirectAny, a: &mut Kaa, q: &mut Kaq],
        ent = abits(*e), dir = Some(*d), cols = [ColRef::W(a), ColRef::W(q)],
        other = None);
    site!(S1, W32, w,
        params = [e: &Entity<ArchW32>, d: &EntityDirect<ArchW32>, z: &mut Kbf, r: &Kar],
        ent = abits((*e).into_any()), dir = Some((*d).into_any()), cols = [ColRef::W(z), ColRef::R(r)],
        other = Some(&mut w.arch_w_17 as &mut dyn ArchDyn),
        nested = ArchW17);

    world_spec!(W32, "W32",
        archs = [(0, ArchW17, arch_w_17), (1, ArchW32, arch_w_32)],
        sites = [
            (0, S0, SiteInfo { name: "S0 |&EntityAny, &EntityDirectAny, &mut Kaa, &mut Kaq|", matches: &[0, 1], cols: &[&[0, 16], &[0, 16]], muts: &[true, true], has_dir: true, other: None }),
            (1, S1, SiteInfo { name: "S1 |&Entity<ArchW32>, &EntityDirect<ArchW32>, &mut Kbf, &Kar|", matches: &[1], cols: &[&[31, 17]], muts: &[true, false], has_dir: true, other: Some(0) }),
        ]
    );
}
