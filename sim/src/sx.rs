//! Minimal s-expression (de)serialisation so that a trace is an explicit, human-readable,
//! PRNG-free replay file.

#[derive(Clone, Debug, PartialEq, Eq)]
pub enum Sx {
    Atom(String),
    List(Vec<Sx>),
}

impl std::fmt::Display for Sx {
    fn fmt(&self, f: &mut std::fmt::Formatter<'_>) -> std::fmt::Result {
        match self {
            Sx::Atom(a) => write!(f, "{}", a),
            Sx::List(l) => {
                write!(f, "(")?;
                for (i, x) in l.iter().enumerate() {
                    if i > 0 {
                        write!(f, " ")?;
                    }
                    write!(f, "{}", x)?;
                }
                write!(f, ")")
            }
        }
    }
}

pub fn parse(s: &str) -> Result<Sx, String> {
    let toks = tokenize(s);
    let mut pos = 0;
    let r = parse_at(&toks, &mut pos)?;
    if pos != toks.len() {
        return Err(format!("trailing tokens after s-expression: {:?}", &toks[pos..toks.len().min(pos + 3)]));
    }
    Ok(r)
}

fn tokenize(s: &str) -> Vec<String> {
    let mut out = Vec::new();
    let mut cur = String::new();
    for ch in s.chars() {
        match ch {
            '(' | ')' => {
                if !cur.is_empty() {
                    out.push(std::mem::take(&mut cur));
                }
                out.push(ch.to_string());
            }
            c if c.is_whitespace() => {
                if !cur.is_empty() {
                    out.push(std::mem::take(&mut cur));
                }
            }
            c => cur.push(c),
        }
    }
    if !cur.is_empty() {
        out.push(cur);
    }
    out
}

fn parse_at(t: &[String], pos: &mut usize) -> Result<Sx, String> {
    if *pos >= t.len() {
        return Err("unexpected end of input".into());
    }
    if t[*pos] == "(" {
        *pos += 1;
        let mut l = Vec::new();
        loop {
            if *pos >= t.len() {
                return Err("unclosed (".into());
            }
            if t[*pos] == ")" {
                *pos += 1;
                return Ok(Sx::List(l));
            }
            l.push(parse_at(t, pos)?);
        }
    } else if t[*pos] == ")" {
        Err("unexpected )".into())
    } else {
        *pos += 1;
        Ok(Sx::Atom(t[*pos - 1].clone()))
    }
}

pub trait ToSx {
    fn to_sx(&self) -> Sx;
}
pub trait FromSx: Sized {
    fn from_sx(s: &Sx) -> Result<Self, String>;
}

macro_rules! sx_num {
    ($($t:ty),*) => {$(
        impl ToSx for $t { fn to_sx(&self) -> Sx { Sx::Atom(self.to_string()) } }
        impl FromSx for $t {
            fn from_sx(s: &Sx) -> Result<Self, String> {
                match s { Sx::Atom(a) => a.parse::<$t>().map_err(|e| format!("bad {}: {} ({})", stringify!($t), a, e)), _ => Err(format!("expected {} atom", stringify!($t))) }
            }
        }
    )*};
}
sx_num!(u8, u16, u32, u64, usize, i64);

impl ToSx for String {
    fn to_sx(&self) -> Sx {
        Sx::Atom(self.clone())
    }
}
impl FromSx for String {
    fn from_sx(s: &Sx) -> Result<Self, String> {
        match s {
            Sx::Atom(a) => Ok(a.clone()),
            _ => Err("expected atom".into()),
        }
    }
}

impl ToSx for bool {
    fn to_sx(&self) -> Sx {
        Sx::Atom(if *self { "t" } else { "f" }.to_string())
    }
}
impl FromSx for bool {
    fn from_sx(s: &Sx) -> Result<Self, String> {
        match s {
            Sx::Atom(a) if a == "t" => Ok(true),
            Sx::Atom(a) if a == "f" => Ok(false),
            _ => Err("expected t/f".into()),
        }
    }
}

impl<T: ToSx> ToSx for Option<T> {
    fn to_sx(&self) -> Sx {
        match self {
            None => Sx::Atom("-".into()),
            Some(x) => Sx::List(vec![Sx::Atom("some".into()), x.to_sx()]),
        }
    }
}
impl<T: FromSx> FromSx for Option<T> {
    fn from_sx(s: &Sx) -> Result<Self, String> {
        match s {
            Sx::Atom(a) if a == "-" => Ok(None),
            Sx::List(l) if l.len() == 2 && l[0] == Sx::Atom("some".into()) => Ok(Some(T::from_sx(&l[1])?)),
            _ => Err(format!("expected option, got {}", s)),
        }
    }
}

impl<T: ToSx> ToSx for Vec<T> {
    fn to_sx(&self) -> Sx {
        let mut l = vec![Sx::Atom("v".into())];
        l.extend(self.iter().map(|x| x.to_sx()));
        Sx::List(l)
    }
}
impl<T: FromSx> FromSx for Vec<T> {
    fn from_sx(s: &Sx) -> Result<Self, String> {
        match s {
            Sx::List(l) if !l.is_empty() && l[0] == Sx::Atom("v".into()) => l[1..].iter().map(T::from_sx).collect(),
            _ => Err(format!("expected (v ...), got {}", s)),
        }
    }
}

impl<T: ToSx> ToSx for Box<T> {
    fn to_sx(&self) -> Sx {
        (**self).to_sx()
    }
}
impl<T: FromSx> FromSx for Box<T> {
    fn from_sx(s: &Sx) -> Result<Self, String> {
        Ok(Box::new(T::from_sx(s)?))
    }
}

impl<A: ToSx, B: ToSx> ToSx for (A, B) {
    fn to_sx(&self) -> Sx {
        Sx::List(vec![self.0.to_sx(), self.1.to_sx()])
    }
}
impl<A: FromSx, B: FromSx> FromSx for (A, B) {
    fn from_sx(s: &Sx) -> Result<Self, String> {
        match s {
            Sx::List(l) if l.len() == 2 => Ok((A::from_sx(&l[0])?, B::from_sx(&l[1])?)),
            _ => Err("expected pair".into()),
        }
    }
}
impl<A: ToSx, B: ToSx, C: ToSx> ToSx for (A, B, C) {
    fn to_sx(&self) -> Sx {
        Sx::List(vec![self.0.to_sx(), self.1.to_sx(), self.2.to_sx()])
    }
}
impl<A: FromSx, B: FromSx, C: FromSx> FromSx for (A, B, C) {
    fn from_sx(s: &Sx) -> Result<Self, String> {
        match s {
            Sx::List(l) if l.len() == 3 => Ok((A::from_sx(&l[0])?, B::from_sx(&l[1])?, C::from_sx(&l[2])?)),
            _ => Err("expected triple".into()),
        }
    }
}

pub fn field<T: FromSx>(l: &[Sx], name: &str) -> Result<T, String> {
    for x in l {
        if let Sx::List(kv) = x {
            if kv.len() == 2 && kv[0] == Sx::Atom(name.to_string()) {
                return T::from_sx(&kv[1]).map_err(|e| format!("field {}: {}", name, e));
            }
        }
    }
    // a field that is absent reads as "-" (None) when its type allows it: lets older replay files
    // stay valid after an optional field was added to an operation
    T::from_sx(&Sx::Atom("-".to_string())).map_err(|_| format!("missing field {}", name))
}

/// Declares an enum (unit and struct-like variants) together with its s-expression codec.
#[macro_export]
macro_rules! sx_enum {
    (
        $(#[$m:meta])*
        pub enum $N:ident {
            $( $V:ident $( { $( $f:ident : $t:ty ),* $(,)? } )? ),* $(,)?
        }
    ) => {
        $(#[$m])*
        pub enum $N {
            $( $V $( { $( $f : $t ),* } )? ),*
        }
        impl $crate::sx::ToSx for $N {
            fn to_sx(&self) -> $crate::sx::Sx {
                match self {
                    $(
                        $N::$V $( { $( $f ),* } )? => {
                            #[allow(unused_mut)]
                            let mut l: Vec<$crate::sx::Sx> = vec![$crate::sx::Sx::Atom(stringify!($V).to_string())];
                            $( $( l.push($crate::sx::Sx::List(vec![$crate::sx::Sx::Atom(stringify!($f).to_string()), $crate::sx::ToSx::to_sx($f)])); )* )?
                            if l.len() == 1 { l.pop().unwrap() } else { $crate::sx::Sx::List(l) }
                        }
                    )*
                }
            }
        }
        impl $crate::sx::FromSx for $N {
            fn from_sx(s: &$crate::sx::Sx) -> Result<Self, String> {
                let (name, rest): (&str, &[$crate::sx::Sx]) = match s {
                    $crate::sx::Sx::Atom(a) => (a.as_str(), &[]),
                    $crate::sx::Sx::List(l) => match l.first() {
                        Some($crate::sx::Sx::Atom(a)) => (a.as_str(), &l[1..]),
                        _ => return Err(format!("expected ({} ...)", stringify!($N))),
                    },
                };
                let _ = rest;
                $(
                    if name == stringify!($V) {
                        return Ok($N::$V $( { $( $f: $crate::sx::field(rest, stringify!($f))? ),* } )?);
                    }
                )*
                Err(format!("unknown {} variant {}", stringify!($N), name))
            }
        }
    };
}

#[macro_export]
macro_rules! sx_struct {
    (
        $(#[$m:meta])*
        pub struct $N:ident { $( pub $f:ident : $t:ty ),* $(,)? }
    ) => {
        $(#[$m])*
        pub struct $N { $( pub $f : $t ),* }
        impl $crate::sx::ToSx for $N {
            fn to_sx(&self) -> $crate::sx::Sx {
                let mut l: Vec<$crate::sx::Sx> = vec![$crate::sx::Sx::Atom(stringify!($N).to_string())];
                $( l.push($crate::sx::Sx::List(vec![$crate::sx::Sx::Atom(stringify!($f).to_string()), $crate::sx::ToSx::to_sx(&self.$f)])); )*
                $crate::sx::Sx::List(l)
            }
        }
        impl $crate::sx::FromSx for $N {
            fn from_sx(s: &$crate::sx::Sx) -> Result<Self, String> {
                match s {
                    $crate::sx::Sx::List(l) if !l.is_empty() => Ok($N { $( $f: $crate::sx::field(&l[1..], stringify!($f))? ),* }),
                    _ => Err(format!("expected ({} ...)", stringify!($N))),
                }
            }
        }
    };
}
