//! World-level operations (fork, crash, fill, forge, boundary) and the run loop.

use std::collections::{BTreeMap, BTreeSet};

use gecs::prelude::EntityAny;

use crate::comps::{kind_has_drop, kind_has_id, Obs};
use crate::engine::*;
use crate::model::*;
use crate::ops::*;
use crate::rt::{self, Injected, VState};
use crate::spec::*;

impl<W: WorldSpec> Engine<W> {
    /// F9 (fork) with optional F2 (panic from the k-th Clone::clone) and an optional access issued
    /// from inside the k-th Clone::clone (C11 "clone in progress").
    pub fn op_clone_world(&mut self, panic_at: Option<u32>, probe: Option<(u32, Access)>) {
        if !self.cur_alive() || self.alive_worlds().len() >= 4 {
            return;
        }
        let wid = self.cur;
        let total_cells: u32 = self.ms[wid].ents.values().map(|r| r.cols.len() as u32).sum();
        let panic_at = panic_at.map(|k| if total_cells == 0 { 0 } else { k % (total_cells + 1) });
        // probe from inside Clone::clone: run one access against the world being cloned
        let probe_result: std::rc::Rc<std::cell::RefCell<Option<(bool, String, Option<usize>)>>> = Default::default();
        let mut probe_k = None;
        if let Some((k, acc)) = probe {
            if total_cells > 0 {
                let kk = k % total_cells;
                probe_k = Some(kk);
                let wp = self.ws[wid].as_ref().unwrap() as *const W as usize;
                let mp = &self.ms[wid] as *const Model as usize;
                let pr = probe_result.clone();
                rt::set_clone_probe(Some(Box::new(move |ckind: u8, cid: u32| {
                    // SAFETY (harness only): both pointers outlive the clone call that invokes this
                    // callback, and only shared references are formed - the same aliasing a safe
                    // program gets by reaching the world through an Rc from inside Clone::clone.
                    let w: &W = unsafe { &*(wp as *const W) };
                    let m: &Model = unsafe { &*(mp as *const Model) };
                    let a = acc.a as usize % W::archs().len();
                    let drv = W::archs()[a];
                    let col = acc.col as usize % drv.info().kinds.len();
                    // the archetype whose clone is in progress: the one holding the value being cloned
                    let in_progress: Option<usize> = if kind_has_id(ckind) {
                        m.ents.values().find(|r| r.cols.iter().any(|c| c.kind == ckind && c.id == cid)).map(|r| r.arch)
                    } else {
                        None
                    };
                    let r = catch(|| match acc.kind {
                        AccKind::BorrowSlice | AccKind::IterBorrow | AccKind::CloneWorld | AccKind::CloneArch | AccKind::CloneFromWorld | AccKind::CloneFromArch | AccKind::DoubleFind | AccKind::DoubleIter => {
                            let _g = drv.hold_bslice(w, col, acc.m);
                        }
                        AccKind::FindBorrow | AccKind::BorrowComp => {
                            let live = m.live_of(a);
                            if !live.is_empty() {
                                let b = live[acc.ent as usize % live.len()];
                                drv.with_bcomp(w, Key::T(any_from_bits(b).unwrap()), col, acc.m, &mut |_| {});
                            }
                        }
                    });
                    *pr.borrow_mut() = Some(match r {
                        Ok(()) => (false, String::new(), in_progress),
                        Err(c) => (true, c.msg, in_progress),
                    });
                })));
            }
        }
        rt::arm(panic_at, None, probe_k, true);
        let res = {
            let w = self.ws[wid].as_ref().unwrap();
            catch(|| w.clone())
        };
        let (clone_log, clone_calls) = rt::with(|r| (std::mem::take(&mut r.clone_log), r.clone_calls));
        rt::disarm();
        rt::set_clone_probe(None);
        rt::h(&[0xC104E, clone_calls as u64, res.is_ok() as u64]);
        self.yields.push((self.step, 1, clone_calls));
        self.interleavings.insert(mix(0xC10, mix(panic_at.map_or(99, |k| k.min(12)) as u64, probe.map_or(0, |p| 1 + p.1.kind as u64))));
        // probe verdict: while archetype X is being cloned all its columns are shared-borrowed
        if let (Some((_, acc)), Some((panicked, msg, in_progress))) = (probe, probe_result.borrow().clone()) {
            self.stats.inc("clone_probe_ran");
            let borrowish = !panicked || is_borrow_panic(&msg);
            if !borrowish {
                vio("C10", "unexpected-panic", format!("access {:?} from inside Clone::clone panicked: {}", acc, msg));
            } else if !acc.m && panicked {
                vio("C11", "spurious-refusal", format!("shared access {:?} from inside Clone::clone was refused: {}", acc, msg));
            }
            // while archetype X is being cloned every column of X has a reader: a mutable access
            // to X must be refused, one to any other archetype must be granted
            if acc.m && borrowish {
                let a = acc.a as usize % W::archs().len();
                let takes = match acc.kind {
                    AccKind::FindBorrow | AccKind::BorrowComp => self.ms[wid].archs[a].len > 0,
                    _ => true,
                };
                match in_progress {
                    Some(x) if x == a && takes => {
                        if panicked {
                            self.stats.inc("F6_borrow_conflict_in_clone");
                        } else {
                            vio("C11", "aliasing-access-granted", format!("mutable access {:?} from inside Clone::clone of a value of {} was granted while that archetype is being cloned", acc, W::archs()[x].info().name));
                        }
                    }
                    Some(x) if x != a => {
                        if panicked {
                            vio("C11", "spurious-refusal", format!("mutable access {:?} from inside Clone::clone of a value of {} (another archetype) was refused: {}", acc, W::archs()[x].info().name, msg));
                        } else {
                            self.stats.inc("clone_probe_other_archetype_granted");
                        }
                    }
                    _ => {}
                }
            }
        }
        match res {
            Ok(w2) => {
                let base = self.ms[wid].clone();
                self.register_fork(wid, w2, base, &clone_log);
            }
            Err(c) => {
                if c.injected == Some(Injected::Clone) {
                    self.stats.inc("F2_clone_panic");
                    self.faulted = true;
                    // values cloned before the fault may be leaked (never double-dropped)
                    for (k, _, n) in &clone_log {
                        if kind_has_id(*k) {
                            self.leak_ok.insert((*k, *n));
                        } else {
                            self.leak_ok_noid[*k as usize] += 1;
                        }
                    }
                } else {
                    vio("C10", "unexpected-panic", format!("World::clone panicked: {}", c.msg));
                }
            }
        }
        // clone reads every column through a runtime borrow: all of them must be free again,
        // after a normal return and after unwinding (C11)
        if !rt::has_violation() {
            self.check_all_released(wid, "World::clone");
        }
    }

    /// A successful `clone()` of world `wid` becomes a replica: every live cell cloned exactly once
    /// (C04), then audited against a copy of the model taken at the fork instant (C13).
    pub fn register_fork(&mut self, wid: usize, w2: W, base: Model, clone_log: &[(u8, u32, u32)]) {
        // C04/C13: every live cell cloned exactly once, nothing else
        let mut by_src: BTreeMap<(u8, u32), u32> = BTreeMap::new();
        let mut noid = [0u64; rt::NKINDS];
        for (k, s, n) in clone_log {
            if kind_has_id(*k) {
                if by_src.insert((*k, *s), *n).is_some() {
                    vio("C04", "cloned-twice", format!("clone(): value kind={} id={} was cloned twice", k, s));
                    drop(w2);
                    return;
                }
            } else {
                noid[*k as usize] += 1;
            }
        }
        let mut m2 = base;
        let mut want_noid = [0u64; rt::NKINDS];
        let mut cells = 0usize;
        for r in m2.ents.values_mut() {
            for c in r.cols.iter_mut() {
                if c.kind == 6 {
                    continue; // untracked Copy ZST
                }
                cells += 1;
                if kind_has_id(c.kind) {
                    match by_src.remove(&(c.kind, c.id)) {
                        Some(n) => c.id = n,
                        None => {
                            vio("C04", "live-value-not-cloned", format!("clone(): live value kind={} id={} was not cloned", c.kind, c.id));
                            drop(w2);
                            return;
                        }
                    }
                } else {
                    want_noid[c.kind as usize] += 1;
                }
            }
        }
        if !by_src.is_empty() || noid != want_noid {
            vio("C04", "cloned-non-live-value", format!("clone(): cloned values that are not live cells: {:?} (zero-sized counts {:?} vs {:?})", by_src, &noid[..8], &want_noid[..8]));
            drop(w2);
            return;
        }
        let _ = cells;
        let nid = self.ws.len();
        self.ws.push(Some(w2));
        self.ms.push(m2);
        for e in self.book.iter_mut() {
            if let Some(n) = e.native_in(wid) {
                e.natives.push(Native { world: nid, ..n });
            }
        }
        self.stats.inc("F9_fork");
        if self.ms[wid].archs.iter().any(|a| a.len > 0 && a.len < a.cap) {
            self.stats.inc("fork_below_capacity");
        }
        if self.ms[wid].archs.iter().any(|a| a.removals > 0 && a.len > 0) {
            self.stats.inc("fork_after_removals");
        }
        // identical at the fork instant: audit the replica against the copied model, all handles
        let save = self.cur;
        self.cur = nid;
        self.audit_step(true);
        self.cur = save;
    }

    /// Forks taken from INSIDE a borrow-mode closure or under a held shared guard (stashed by
    /// `run_access`) are kept as replicas, exactly like top-level forks.
    pub fn adopt_forks(&mut self, wid: usize) {
        for (wb, mb, log) in rt::take_forks() {
            let (w2, base) = match (wb.downcast::<W>(), mb.downcast::<Model>()) {
                (Ok(w), Ok(m)) => (*w, *m),
                _ => continue,
            };
            if self.alive_worlds().len() >= 4 || rt::has_violation() {
                drop(w2);
                continue;
            }
            self.stats.inc("fork_from_inside_borrowed_access");
            rt::h(&[0xF04B, log.len() as u64]);
            self.register_fork(wid, w2, base, &log);
        }
    }

    /// F8: the world is dropped at an arbitrary step, optionally with F3 (panic from the k-th Drop).
    pub fn op_drop_world(&mut self, panic_at: Option<u32>) {
        if !self.cur_alive() {
            return;
        }
        let wid = self.cur;
        self.drop_world(wid, panic_at);
        // keep going on another replica, or on a fresh world
        let alive = self.alive_worlds();
        if let Some(w) = alive.first() {
            self.cur = *w;
        } else {
            let caps: Vec<usize> = vec![0; W::archs().len()];
            match catch(|| W::fresh_default()) {
                Ok(w) => {
                    self.ws.push(Some(w));
                    self.ms.push(Model::new(&caps));
                    self.cur = self.ws.len() - 1;
                }
                Err(c) => vio("C10", "unexpected-panic", format!("World::with_capacity panicked: {}", c.msg)),
            }
        }
    }

    pub fn drop_world(&mut self, wid: usize, panic_at: Option<u32>) {
        let w = match self.ws[wid].take() {
            Some(w) => w,
            None => return,
        };
        let cells: Vec<(u8, u32)> = self.ms[wid].ents.values().flat_map(|r| r.cols.iter().map(|c| (c.kind, c.id))).filter(|(k, _)| kind_has_drop(*k)).collect();
        let n = cells.len() as u32;
        let panic_at = panic_at.map(|k| if n == 0 { 0 } else { k % (n + 1) });
        let before: [rt::KindCounters; rt::NKINDS] = rt::with(|r| r.counters);
        rt::arm(None, panic_at, None, false);
        let res = catch(move || drop(w));
        rt::disarm();
        let after: [rt::KindCounters; rt::NKINDS] = rt::with(|r| r.counters);
        self.stats.inc("F8_world_dropped");
        if !cells.is_empty() {
            self.stats.inc("world_dropped_nonempty");
        }
        rt::h(&[0xD409, wid as u64, n as u64]);
        self.yields.push((self.step, 2, n));
        self.interleavings.insert(mix(0xD40, panic_at.map_or(99, |k| k.min(12)) as u64));
        match res {
            Ok(()) => {
                for (k, id) in &cells {
                    if kind_has_id(*k) && rt::state(*k, *id) != VState::Dropped {
                        vio("C04", "leak-on-world-drop", format!("world dropped, but its value kind={} id={} was not dropped", k, id));
                        return;
                    }
                }
                for k in 0..rt::NKINDS {
                    if !kind_has_id(k as u8) && k != 6 {
                        let want = cells.iter().filter(|(kk, _)| *kk as usize == k).count() as u64;
                        let got = after[k].dropped - before[k].dropped;
                        if got != want {
                            vio("C04", "zero-sized-drop-count", format!("world dropped: kind {} dropped {} times, {} live cells", k, got, want));
                            return;
                        }
                    }
                }
            }
            Err(c) => {
                if c.injected == Some(Injected::Drop) {
                    self.stats.inc("F3_drop_panic_in_world_drop");
                    self.faulted = true;
                    for (k, id) in &cells {
                        if kind_has_id(*k) {
                            self.leak_ok.insert((*k, *id));
                        } else {
                            self.leak_ok_noid[*k as usize] += 1;
                        }
                    }
                } else {
                    vio("C10", "unexpected-panic", format!("dropping the world panicked: {}", c.msg));
                }
            }
        }
        self.ms[wid].clear_entities();
    }

    /// An unrelated world of the same type (different history, different capacities): its handles
    /// are foreign everywhere else and vice versa ("crossed wires").
    pub fn op_spawn(&mut self, c: u64) {
        if self.alive_worlds().len() >= 4 {
            return;
        }
        let caps: Vec<usize> = (0..W::archs().len()).map(|i| (mix(c, i as u64) % 9) as usize).collect();
        match catch(|| W::with_caps(&caps)) {
            Ok(w) => {
                let mut m = Model::new(&caps);
                for (ai, d) in W::archs().iter().enumerate() {
                    m.archs[ai].cap = d.capacity(&w);
                }
                self.ws.push(Some(w));
                self.ms.push(m);
                self.stats.inc("spawn_unrelated_world");
            }
            Err(cg) => vio("C10", "unexpected-panic", format!("World::with_capacity panicked: {}", cg.msg)),
        }
    }

    /// `dst.clone_from(&src)`: an existing world (a replica, or an unrelated one) is overwritten by
    /// a clone of the current world. Afterwards dst must answer exactly like src (C13), every value
    /// dst held before must have been dropped exactly once and every live value of src cloned
    /// exactly once (C04).
    pub fn op_clone_from(&mut self, n: u8) {
        if !self.cur_alive() {
            return;
        }
        let src = self.cur;
        let targets: Vec<usize> = self.alive_worlds().into_iter().filter(|w| *w != src).collect();
        if targets.is_empty() {
            return;
        }
        let dst = targets[n as usize % targets.len()];
        let old_cells: Vec<(u8, u32)> = self.ms[dst].ents.values().flat_map(|r| r.cols.iter().map(|c| (c.kind, c.id))).filter(|(k, _)| kind_has_id(*k) && kind_has_drop(*k)).collect();
        rt::arm(None, None, None, true);
        let mut d = self.ws[dst].take().unwrap();
        let res = {
            let s = self.ws[src].as_ref().unwrap();
            catch(|| d.clone_from(s))
        };
        self.ws[dst] = Some(d);
        let clone_log = rt::with(|r| std::mem::take(&mut r.clone_log));
        rt::disarm();
        rt::h(&[0xC1F0, dst as u64, clone_log.len() as u64]);
        if let Err(c) = res {
            vio("C10", "unexpected-panic", format!("World::clone_from panicked: {}", c.msg));
            return;
        }
        for (k, id) in &old_cells {
            if rt::state(*k, *id) != VState::Dropped {
                vio("C04", "leak-on-clone-from", format!("clone_from: value kind={} id={} of the overwritten world was not dropped", k, id));
                return;
            }
        }
        let mut by_src: BTreeMap<(u8, u32), u32> = BTreeMap::new();
        for (k, s, nn) in &clone_log {
            if kind_has_id(*k) && by_src.insert((*k, *s), *nn).is_some() {
                vio("C04", "cloned-twice", format!("clone_from(): value kind={} id={} was cloned twice", k, s));
                return;
            }
        }
        let mut m2 = self.ms[src].clone();
        for r in m2.ents.values_mut() {
            for c in r.cols.iter_mut() {
                if kind_has_id(c.kind) {
                    match by_src.remove(&(c.kind, c.id)) {
                        Some(nn) => c.id = nn,
                        None => {
                            vio("C04", "live-value-not-cloned", format!("clone_from(): live value kind={} id={} was not cloned", c.kind, c.id));
                            return;
                        }
                    }
                }
            }
        }
        if !by_src.is_empty() {
            vio("C04", "cloned-non-live-value", format!("clone_from(): cloned values that are not live cells: {:?}", by_src));
            return;
        }
        self.ms[dst] = m2;
        // C13 speaks about clone(); after clone_from only C12 binds the capacity (>= len, checked by
        // the audit): a buffer-recycling clone_from may legitimately keep a larger one
        for (ai, d) in W::archs().iter().enumerate() {
            self.ms[dst].archs[ai].cap = d.capacity(self.ws[dst].as_ref().unwrap());
        }
        self.dm_cache.clear();
        // dst leaves its old lineage and joins src's
        for e in self.book.iter_mut() {
            e.natives.retain(|nv| nv.world != dst);
            if let Some(nv) = e.native_in(src) {
                e.natives.push(Native { world: dst, ..nv });
            }
        }
        self.stats.inc("clone_from");
        let save = self.cur;
        self.cur = dst;
        self.audit_step(true);
        self.cur = save;
    }

    /// `clone_from` with a scope (whole world, or one archetype through `Archetype::clone_from`)
    /// and optionally one injected fault: the k-th `Clone::clone` panics (F2), or the k-th
    /// `Drop::drop` of the overwritten content panics (F3).
    ///
    /// Without a fault every archetype in scope must afterwards answer exactly like the source's
    /// (C13), every overwritten value must have been dropped once and every live source value
    /// cloned once (C04). After a fault each archetype in scope must be, as a whole, one of: its
    /// old self (old handles, old values, none of them dropped), the source's clone, or empty;
    /// anything else is a torn state (C10). Values of the losing side may be leaked, never
    /// dropped twice and never left readable after their destructor ran.
    pub fn op_clone_from_x(&mut self, n: u8, a: Option<u8>, panic_at: Option<u32>, dp: Option<u32>) {
        if !self.cur_alive() {
            return;
        }
        let src = self.cur;
        let targets: Vec<usize> = self.alive_worlds().into_iter().filter(|w| *w != src).collect();
        if targets.is_empty() {
            return;
        }
        let dst = targets[n as usize % targets.len()];
        let na = W::archs().len();
        let scope: Vec<usize> = match a {
            Some(x) => vec![x as usize % na],
            None => (0..na).collect(),
        };
        let old_cells: Vec<(u8, u32)> = self.ms[dst].ents.values().filter(|r| scope.contains(&r.arch)).flat_map(|r| r.cols.iter().map(|c| (c.kind, c.id))).filter(|(k, _)| kind_has_drop(*k)).collect();
        let src_cells: u32 = self.ms[src].ents.values().filter(|r| scope.contains(&r.arch)).map(|r| r.cols.len() as u32).sum();
        let n_old = old_cells.len() as u32;
        let (panic_at, dp) = match (panic_at, dp) {
            (Some(k), _) => (Some(k % (src_cells + 1)), None),
            (None, Some(k)) => (None, Some(k % (n_old + 1))),
            _ => (None, None),
        };
        let before: [rt::KindCounters; rt::NKINDS] = rt::with(|r| r.counters);
        rt::arm(panic_at, dp, None, true);
        let mut d = self.ws[dst].take().unwrap();
        let res = {
            let s = self.ws[src].as_ref().unwrap();
            match a {
                None => catch(|| d.clone_from(s)),
                Some(_) => catch(|| W::archs()[scope[0]].clone_from_other(&mut d, s)),
            }
        };
        self.ws[dst] = Some(d);
        let clone_log = rt::with(|r| std::mem::take(&mut r.clone_log));
        rt::disarm();
        let after: [rt::KindCounters; rt::NKINDS] = rt::with(|r| r.counters);
        rt::h(&[0xC1F1, dst as u64, a.map_or(99, |x| x as u64), res.is_ok() as u64]);
        self.yields.push((self.step, 6, src_cells));
        self.yields.push((self.step, 7, n_old));
        self.interleavings.insert(mix(0xC1F, mix(a.map_or(99, |x| x as u64 % na as u64), mix(panic_at.map_or(99, |k| k.min(12)) as u64, dp.map_or(99, |k| k.min(12)) as u64))));
        self.dm_cache.clear();
        // source value -> its clone(s)
        let mut by_src: BTreeMap<(u8, u32), u32> = BTreeMap::new();
        for (k, s, nn) in &clone_log {
            if kind_has_id(*k) && by_src.insert((*k, *s), *nn).is_some() {
                vio("C04", "cloned-twice", format!("clone_from(): value kind={} id={} was cloned twice", k, s));
                return;
            }
        }
        // the source's rows of one archetype with ids mapped to the clones (None: not all were cloned)
        let mapped_rows = |m: &Model, ai: usize, by_src: &BTreeMap<(u8, u32), u32>| -> Option<BTreeMap<Bits, Vec<Obs>>> {
            let mut out = BTreeMap::new();
            for b in m.by_arch[ai].iter() {
                let mut cols = m.ents[b].cols.clone();
                for c in cols.iter_mut() {
                    if kind_has_id(c.kind) {
                        c.id = *by_src.get(&(c.kind, c.id))?;
                    }
                }
                out.insert(*b, cols);
            }
            Some(out)
        };
        match res {
            Ok(()) => {
                for (k, id) in &old_cells {
                    if kind_has_id(*k) && rt::state(*k, *id) != VState::Dropped {
                        vio("C04", "leak-on-clone-from", format!("clone_from: overwritten value kind={} id={} was not dropped", k, id));
                        return;
                    }
                }
                for k in 0..rt::NKINDS {
                    if !kind_has_id(k as u8) && k != 6 && kind_has_drop(k as u8) {
                        let want = old_cells.iter().filter(|(kk, _)| *kk as usize == k).count() as u64;
                        let got = after[k].dropped - before[k].dropped;
                        if got != want {
                            vio("C04", "zero-sized-drop-count", format!("clone_from: kind {} dropped {} times, {} overwritten cells", k, got, want));
                            return;
                        }
                    }
                }
                let mut used = 0usize;
                for ai in scope.iter().copied() {
                    match mapped_rows(&self.ms[src], ai, &by_src) {
                        Some(rows) => {
                            used += rows.values().flat_map(|c| c.iter()).filter(|c| kind_has_id(c.kind)).count();
                            self.adopt_arch(dst, src, ai, Some(rows));
                        }
                        None => {
                            vio("C04", "live-value-not-cloned", format!("clone_from(): a live value of {} was not cloned", W::archs()[ai].info().name));
                            return;
                        }
                    }
                }
                if used != by_src.len() {
                    vio("C04", "cloned-non-live-value", format!("clone_from(): {} values cloned, {} live cells in scope", by_src.len(), used));
                    return;
                }
                self.stats.inc(if a.is_some() { "clone_from_archetype" } else { "clone_from_world_x" });
            }
            Err(c) => {
                match c.injected {
                    Some(Injected::Clone) => self.stats.inc("F2_clone_panic_in_clone_from"),
                    Some(Injected::Drop) => self.stats.inc("F3_drop_panic_in_clone_from"),
                    _ => {
                        vio("C10", "unexpected-panic", format!("clone_from panicked: {}", c.msg));
                        return;
                    }
                }
                self.faulted = true;
                for ai in scope.iter().copied() {
                    let drv = W::archs()[ai];
                    let obs = {
                        let w = self.ws[dst].as_mut().unwrap();
                        catch(|| drv.scan(w, SPATHS[0], None))
                    };
                    let rows: BTreeMap<Bits, Vec<Obs>> = match obs {
                        Ok(Ok(r)) => {
                            let n = r.len();
                            let m: BTreeMap<Bits, Vec<Obs>> = r.into_iter().collect();
                            if m.len() != n {
                                vio("C10", "torn-state-after-panic", format!("{} after a panic inside clone_from: an entity is listed twice", drv.info().name));
                                return;
                            }
                            m
                        }
                        Ok(Err(e)) => {
                            vio("C10", "torn-state-after-panic", format!("{} after a panic inside clone_from: {}", drv.info().name, e));
                            return;
                        }
                        Err(cc) => {
                            vio("C10", "unusable-after-panic", format!("{} after a panic inside clone_from: reading it panicked: {}", drv.info().name, cc.msg));
                            return;
                        }
                    };
                    if rt::has_violation() {
                        return;
                    }
                    let old_rows: BTreeMap<Bits, Vec<Obs>> = self.ms[dst].by_arch[ai].iter().map(|b| (*b, self.ms[dst].ents[b].cols.clone())).collect();
                    let new_rows = mapped_rows(&self.ms[src], ai, &by_src);
                    let is_old = rows == old_rows;
                    let is_new = Some(&rows) == new_rows.as_ref();
                    // both (same handles, no identified values: zero-sized columns): decide by what
                    // else can be observed - capacity and, with hooks, the archetype version
                    let fits = |e: &Self, m: usize| -> bool {
                        let w = e.ws[dst].as_ref().unwrap();
                        let am = &e.ms[m].archs[ai];
                        if drv.capacity(w) != am.cap {
                            return false;
                        }
                        if !e.cfg.hooks {
                            return true;
                        }
                        let dump = drv.dump(w);
                        let gens: Vec<u32> = dump.slots.iter().map(|(_, g)| *g).collect();
                        (am.ver_obs == 0 || dump.version as u64 == am.ver) && (am.slot_gens.is_empty() || am.slot_gens == gens)
                    };
                    let prefer_new = c.injected == Some(Injected::Drop);
                    // 0 old, 1 new, 2 emptied (the old entities are gone, the world is still its old
                    // self), 4 undecided, 3 torn
                    let choice = match (is_old, is_new) {
                        (true, false) => 0,
                        (false, true) => {
                            if rows.is_empty() && !fits(self, src) {
                                2
                            } else {
                                1
                            }
                        }
                        (true, true) => {
                            let (fo, fnw) = (fits(self, dst), fits(self, src));
                            if fo && fnw {
                                if prefer_new { 1 } else { 0 }
                            } else if fo {
                                0
                            } else if fnw {
                                1
                            } else if rows.is_empty() {
                                2
                            } else {
                                4
                            }
                        }
                        (false, false) if rows.is_empty() => 2,
                        _ => 3,
                    };
                    match choice {
                        0 => self.stats.inc("clone_from_fault_left_old"),
                        1 => {
                            self.adopt_arch(dst, src, ai, new_rows);
                            self.stats.inc("clone_from_fault_left_new");
                        }
                        2 => {
                            // emptied: every old entity of this archetype was removed, and the world
                            // is still its old self - its stale handles must stay dead (C01), its
                            // direct handles must have died (C09), nothing may be reissued (C08)
                            let wrapping = self.cfg.wrapping;
                            let olds: Vec<Bits> = self.ms[dst].by_arch[ai].iter().copied().collect();
                            for b in olds {
                                self.ms[dst].remove(b, wrapping);
                            }
                            #[cfg(feature = "events")]
                            {
                                // which events a half-done clone_from leaves behind is not prescribed
                                let w = self.ws[dst].as_ref().unwrap();
                                let (cev, dev) = (drv.created(w), drv.destroyed(w));
                                let am = &mut self.ms[dst].archs[ai];
                                am.created_ev = cev;
                                am.destroyed_ev = dev;
                            }
                            self.stats.inc("clone_from_fault_left_empty");
                        }
                        4 => {
                            // same handles either way, no identified values, and the counters match
                            // neither side: keep the entities, forget the counters and the lineage
                            self.soften_arch(dst, ai);
                            self.stats.inc("clone_from_fault_left_undecided");
                        }
                        _ => {
                            vio("C10", "torn-state-after-panic", format!("{} after a panic inside clone_from is neither its old self, nor the source's clone, nor empty: it holds {:x?}", drv.info().name, rows.keys().collect::<Vec<_>>()));
                            return;
                        }
                    }
                }
                // whatever is not part of the final state may have been leaked
                let live: BTreeSet<(u8, u32)> = self.ms[dst].ents.values().flat_map(|r| r.cols.iter().map(|c| (c.kind, c.id))).collect();
                for (k, _, nn) in &clone_log {
                    if kind_has_id(*k) {
                        if !live.contains(&(*k, *nn)) {
                            self.leak_ok.insert((*k, *nn));
                        }
                    } else {
                        self.leak_ok_noid[*k as usize] += 1;
                    }
                }
                for (k, id) in &old_cells {
                    if kind_has_id(*k) {
                        if !live.contains(&(*k, *id)) {
                            self.leak_ok.insert((*k, *id));
                        }
                    } else {
                        self.leak_ok_noid[*k as usize] += 1;
                    }
                }
            }
        }
        if !rt::has_violation() {
            self.check_all_released(src, "clone_from (source)");
            self.check_all_released(dst, "clone_from (destination)");
        }
        let save = self.cur;
        self.cur = dst;
        self.audit_step(true);
        self.cur = save;
    }

    /// Archetype `ai` of world `dst` takes over the identity of the same archetype of `src`
    /// (`rows`: the entities with the ids of the cloned values), or - `rows` = None - is empty
    /// with nothing known about its counters.
    fn adopt_arch(&mut self, dst: usize, src: usize, ai: usize, rows: Option<BTreeMap<Bits, Vec<Obs>>>) {
        let aid = W::archs()[ai].info().id;
        let of_arch = |b: &Bits| ((*b >> 32) & 0xFF) as u8 == aid;
        let old: Vec<Bits> = self.ms[dst].by_arch[ai].iter().copied().collect();
        for b in old {
            self.ms[dst].ents.remove(&b);
        }
        self.ms[dst].by_arch[ai].clear();
        self.ms[dst].issued.retain(|b| !of_arch(b));
        self.ms[dst].wrapped.retain(|(x, _)| *x != ai);
        match rows {
            Some(rows) => {
                let sm = self.ms[src].archs[ai].clone();
                let issued: Vec<Bits> = self.ms[src].issued.iter().copied().filter(|b| of_arch(b)).collect();
                let wrapped: Vec<(usize, u32)> = self.ms[src].wrapped.iter().copied().filter(|(x, _)| *x == ai).collect();
                let cap = W::archs()[ai].capacity(self.ws[dst].as_ref().unwrap());
                let m = &mut self.ms[dst];
                m.archs[ai] = sm;
                m.archs[ai].cap = cap;
                m.issued.extend(issued);
                m.wrapped.extend(wrapped);
                for (b, cols) in rows {
                    m.ents.insert(b, Rec { arch: ai, cols });
                    m.by_arch[ai].insert(b);
                }
                for e in self.book.iter_mut() {
                    if arch_of_byte::<W>(e.arch_byte) == Some(ai) {
                        e.natives.retain(|nv| nv.world != dst);
                        if let Some(nv) = e.native_in(src) {
                            e.natives.push(Native { world: dst, ..nv });
                        }
                    }
                }
            }
            None => {
                self.ms[dst].archs[ai].len = 0;
                self.soften_arch(dst, ai);
            }
        }
    }

    /// Nothing is known any more about the counters and the lineage of archetype `ai` of world
    /// `dst` (its entities stay as the model has them): capacity and event logs are re-read, every
    /// handle of that archetype becomes foreign there.
    fn soften_arch(&mut self, dst: usize, ai: usize) {
        let aid = W::archs()[ai].info().id;
        let w = self.ws[dst].as_ref().unwrap();
        let cap = W::archs()[ai].capacity(w);
        #[cfg(feature = "events")]
        let (cev, dev) = (W::archs()[ai].created(w), W::archs()[ai].destroyed(w));
        self.ms[dst].issued.retain(|b| ((*b >> 32) & 0xFF) as u8 != aid);
        self.ms[dst].wrapped.retain(|(x, _)| *x != ai);
        let am = &mut self.ms[dst].archs[ai];
        am.cap = cap;
        am.slot_gens.clear();
        am.ver_obs = 0;
        am.pub_ver = None;
        am.preset = true;
        #[cfg(feature = "events")]
        {
            am.created_ev = cev;
            am.destroyed_ev = dev;
        }
        for e in self.book.iter_mut() {
            if arch_of_byte::<W>(e.arch_byte) == Some(ai) {
                e.natives.retain(|nv| nv.world != dst);
            }
        }
    }

    pub fn op_switch(&mut self, n: u8) {
        let alive = self.alive_worlds();
        if alive.len() > 1 {
            self.cur = alive[n as usize % alive.len()];
            self.stats.inc("switch_world");
            // whatever happened elsewhere must not be observable here
            self.audit_step(true);
        }
    }

    pub fn op_clear_events(&mut self, a: Option<u8>) {
        #[cfg(feature = "events")]
        {
            if !self.cur_alive() {
                return;
            }
            let wid = self.cur;
            let w = self.ws[wid].as_mut().unwrap();
            match a {
                Some(a) => {
                    let ai = a as usize % W::archs().len();
                    W::archs()[ai].clear_events(w);
                    self.ms[wid].archs[ai].created_ev.clear();
                    self.ms[wid].archs[ai].destroyed_ev.clear();
                    self.stats.inc("clear_events_archetype");
                }
                None => {
                    w.w_clear_events();
                    for am in self.ms[wid].archs.iter_mut() {
                        am.created_ev.clear();
                        am.destroyed_ev.clear();
                    }
                    self.stats.inc("clear_events_world");
                }
            }
        }
        let _ = a;
    }

    /// Refill to exactly capacity() without growing; then one more must fail and hand back its argument.
    pub fn op_fill(&mut self, a: u8) {
        if !self.cur_alive() {
            return;
        }
        let wid = self.cur;
        let ai = a as usize % W::archs().len();
        let am = &self.ms[wid].archs[ai];
        let room = am.cap - am.len;
        if room > 512 {
            return;
        }
        for i in 0..room as u64 {
            self.op_create(ai as u8, if i % 2 == 0 { Lvl::World } else { Lvl::Arch }, mix(0xF111, (self.step as u64) << 16 | i), true, None);
            if rt::has_violation() {
                return;
            }
        }
        let am = &self.ms[wid].archs[ai];
        if am.len != am.cap {
            vio("C12", "cannot-refill-to-capacity", format!("{}: after {} create_within_capacity calls len {} != capacity {}", W::archs()[ai].info().name, room, am.len, am.cap));
            return;
        }
        // one more: must fail and return the argument
        self.op_create(ai as u8, Lvl::Arch, mix(0xF112, self.step as u64), true, None);
        self.stats.inc("fill_to_capacity");
        if room > 0 && self.ms[wid].archs[ai].removals > 0 {
            self.stats.inc("fill_after_removals");
        }
    }

    pub fn op_preset(&mut self, a: u8, slot_back: u32, ver_back: u32, bits: Option<u8>) {
        if !self.cur_alive() || !self.cfg.hooks {
            return;
        }
        let wid = self.cur;
        let ai = a as usize % W::archs().len();
        let am = &self.ms[wid].archs[ai];
        if am.len != 0 || am.preset {
            return;
        }
        // just below 2^bits (default 32: the overflow boundary; smaller widths catch counters that
        // are silently truncated)
        let top: u32 = match bits {
            Some(b) if (4..32).contains(&b) => (1u32 << b) - 1,
            _ => u32::MAX,
        };
        let sg = top - (slot_back % 8);
        let av = top - (ver_back % 8);
        // never lower a generation below one that was already issued
        let id = W::archs()[ai].info().id;
        if self.ms[wid].issued.iter().any(|b| (*b >> 32) as u8 == id && (*b as u32) >= sg) || self.ms[wid].archs[ai].ver >= av as u64 {
            return;
        }
        let w = self.ws[wid].as_mut().unwrap();
        W::archs()[ai].preset(w, sg, av);
        let am = &mut self.ms[wid].archs[ai];
        am.preset = true;
        am.ver = av as u64;
        am.ver_obs = av as u64;
        am.rem_at_obs = am.removals;
        am.pub_ver = None;
        am.slot_gens.clear();
        self.stats.inc("preset_generations");
        rt::h(&[0x94E5, ai as u64, sg as u64, av as u64]);
    }

    /// n create/destroy pairs on one archetype (recycles one position).
    pub fn op_cycle(&mut self, a: u8, n: u32) {
        if !self.cur_alive() {
            return;
        }
        let ai = a as usize % W::archs().len();
        let n = n % 700;
        for i in 0..n {
            let before = self.book.len();
            self.op_create(ai as u8, Lvl::Arch, mix(0xC1C1, (self.step as u64) << 16 | i as u64), false, None);
            if rt::has_violation() || self.book.len() == before {
                return;
            }
            if self.book.len() > 300 {
                return;
            }
            let ei = self.book.len() - 1;
            // destroy exactly the entity just created
            let sel = Sel { class: SEL_RECENT, n: 0 };
            let _ = ei;
            let f0 = self.stats.get("F5_version_overflow_in_destroy");
            self.op_destroy(sel, i % 2 == 0, Lvl::Arch, 0, false, None);
            if rt::has_violation() || self.stats.get("F5_version_overflow_in_destroy") != f0 {
                return;
            }
        }
        self.stats.inc("cycle_op");
    }

    /// Many creations at once (magnitude: hundreds to thousands of entities, several growths);
    /// only every 41st handle goes into the book, all of them into the model.
    pub fn op_bulk(&mut self, a: u8, n: u32, p: u64) {
        if !self.cur_alive() {
            return;
        }
        let ai = a as usize % W::archs().len();
        let n = n.min(5000);
        for i in 0..n {
            self.book_skip = i % 41 != 0;
            self.op_create(ai as u8, if i % 3 == 0 { Lvl::World } else { Lvl::Arch }, mix(p, i as u64), false, None);
            self.book_skip = false;
            if rt::has_violation() {
                return;
            }
        }
        self.stats.inc("bulk_create");
        if n >= 256 {
            self.stats.inc("bulk_create_ge256");
        }
    }

    /// Destroys every `stride`-th entity of the archetype in dense order (typed and dynamic keys).
    pub fn op_bulk_destroy(&mut self, a: u8, stride: u32, phase: u32) {
        if !self.cur_alive() {
            return;
        }
        let wid = self.cur;
        let ai = a as usize % W::archs().len();
        let d = W::archs()[ai];
        let stride = stride.max(1) as usize;
        let ents = d.entities(self.ws[wid].as_ref().unwrap());
        let mut n = 0u32;
        for (i, b) in ents.iter().enumerate() {
            if (i + phase as usize) % stride != 0 {
                continue;
            }
            let any = match any_from_bits(*b) {
                Some(x) => x,
                None => continue,
            };
            if !self.cfg.wrapping && (near_max(*b as u32 as u64) || near_max(self.ms[wid].archs[ai].ver)) {
                break;
            }
            let key = if n % 2 == 0 { Key::T(any) } else { Key::A(any) };
            let w = self.ws[wid].as_mut().unwrap();
            match catch(|| d.destroy(w, if n % 3 == 0 { Lvl::World } else { Lvl::Arch }, key)) {
                Ok(Destroyed::Absent) => {
                    vio("C01", "live-handle-rejected-by-destroy", format!("bulk destroy: destroy({:?}) of a listed entity returned None", key));
                    return;
                }
                Ok(Destroyed::Comps(obs)) => {
                    let want = self.ms[wid].ents.get(b).map(|r| r.cols.clone());
                    if Some(&obs) != want.as_ref() {
                        vio("C02", "destroy-returned-other-values", format!("bulk destroy of {:#x} returned {:?}, the entity's values are {:?}", b, obs, want));
                        return;
                    }
                    self.ms[wid].remove(*b, self.cfg.wrapping);
                }
                Ok(Destroyed::Unit) => {
                    if self.ms[wid].remove(*b, self.cfg.wrapping).is_none() {
                        vio("C06", "presented-non-live", format!("entities() listed {:#x}, which the model does not know", b));
                        return;
                    }
                }
                Err(c) => {
                    vio("C10", "unexpected-panic", format!("bulk destroy panicked: {}", c.msg));
                    return;
                }
            }
            n += 1;
        }
        self.stats.inc("bulk_destroy");
        self.stats.add("destroy_ok", n as u64);
    }

    pub fn op_replace_arch(&mut self, a: u8) {
        if !self.cur_alive() {
            return;
        }
        let wid = self.cur;
        let ai = a as usize % W::archs().len();
        let cells: Vec<(u8, u32)> = self.ms[wid].ents.values().filter(|r| r.arch == ai).flat_map(|r| r.cols.iter().map(|c| (c.kind, c.id))).filter(|(k, _)| kind_has_drop(*k)).collect();
        rt::arm(None, None, None, true);
        let w = self.ws[wid].as_mut().unwrap();
        let res = catch(|| W::archs()[ai].replace_with_clone(w));
        let clone_log = rt::with(|r| std::mem::take(&mut r.clone_log));
        rt::disarm();
        match res {
            Ok(()) => {
                let map: BTreeMap<(u8, u32), u32> = clone_log.iter().filter(|(k, _, _)| kind_has_id(*k)).map(|(k, s, n)| ((*k, *s), *n)).collect();
                for r in self.ms[wid].ents.values_mut().filter(|r| r.arch == ai) {
                    for c in r.cols.iter_mut() {
                        if kind_has_id(c.kind) {
                            match map.get(&(c.kind, c.id)) {
                                Some(n) => c.id = *n,
                                None => {
                                    vio("C04", "live-value-not-cloned", format!("Archetype::clone(): live value kind={} id={} was not cloned", c.kind, c.id));
                                    return;
                                }
                            }
                        }
                    }
                }
                for (k, id) in cells {
                    if kind_has_id(k) && rt::state(k, id) != VState::Dropped {
                        vio("C04", "leak-on-archetype-drop", format!("archetype replaced by its clone, old value kind={} id={} not dropped", k, id));
                        return;
                    }
                }
                self.stats.inc("archetype_clone_replace");
            }
            Err(c) => vio("C10", "unexpected-panic", format!("Archetype::clone panicked: {}", c.msg)),
        }
        if !rt::has_violation() {
            self.check_all_released(wid, "Archetype::clone");
        }
    }

    pub fn op_forge(&mut self, f: &Forge) {
        if let Forge::Alien { n } = f {
            if !self.cur_alive() {
                return;
            }
            let list = alien_directs();
            if list.is_empty() {
                return;
            }
            let d = list[*n as usize % list.len()];
            let wid = self.cur;
            let ei = self.add_forged(HKind::Dir(d));
            self.stats.inc("F7_forged_handle");
            self.stats.inc("forge_alien_direct");
            self.audit_entry(wid, ei, true);
            return;
        }
        if !self.cur_alive() {
            return;
        }
        let wid = self.cur;
        let n = W::archs().len();
        let made: Option<HKind> = match f {
            Forge::Flip { h, mk, mv } => self.select(*h).and_then(|ei| match self.book[ei].kind {
                HKind::Ind(a) => {
                    let (k, v) = a.raw();
                    EntityAny::from_raw((k ^ mk, v ^ mv)).ok().map(HKind::Ind)
                }
                HKind::Dir(_) => None,
            }),
            Forge::Raw { key, ver } => EntityAny::from_raw((*key, *ver)).ok().map(HKind::Ind),
            Forge::Aimed { a, idb, pos, n: nn, gen } => {
                let ai = *a as usize % n;
                let d = W::archs()[ai];
                let w = self.ws[wid].as_ref().unwrap();
                let cap = d.capacity(w);
                let dump = if self.cfg.hooks { d.dump(w) } else { Dump::default() };
                let free: Vec<usize> = dump.slots.iter().enumerate().filter(|(_, (i, _))| i & (1 << 31) != 0).map(|(p, _)| p).collect();
                let live: Vec<usize> = dump.slots.iter().enumerate().filter(|(_, (i, _))| i & (1 << 31) == 0).map(|(p, _)| p).collect();
                let position: u32 = match pos % 7 {
                    0 if !free.is_empty() => free[*nn as usize % free.len()] as u32,
                    1 if !live.is_empty() => live[*nn as usize % live.len()] as u32,
                    2 => cap.saturating_sub(1) as u32,
                    3 => cap as u32,
                    4 => cap as u32 + 1,
                    5 => (1 << 24) - 1,
                    _ => *nn % (cap as u32 + 2),
                };
                let cur_gen = dump.slots.get(position as usize).map(|s| s.1).unwrap_or(1);
                let generation: u32 = match gen % 10 {
                    0 | 6 => cur_gen,
                    1 => cur_gen.wrapping_add(1).max(1),
                    2 => cur_gen.wrapping_sub(1).max(1),
                    3 => 1,
                    4 => u32::MAX,
                    7 => 0x8000_0000 | cur_gen,
                    8 => 0x8000_0000,
                    9 => 0x7FFF_FFFF,
                    _ => (*nn).max(1),
                };
                let id: u8 = match idb % 4 {
                    0 | 1 => d.info().id,
                    2 => W::archs()[(ai + 1) % n].info().id,
                    _ => {
                        // an undeclared archetype id
                        let mut x = (*nn as u8).wrapping_mul(37).wrapping_add(3);
                        while arch_of_byte::<W>(x).is_some() {
                            x = x.wrapping_add(1);
                        }
                        x
                    }
                };
                if pos % 7 == 0 && matches!(gen % 10, 0 | 6) && !free.is_empty() {
                    self.stats.inc("forge_free_position_current_generation");
                }
                if pos % 7 == 3 {
                    self.stats.inc("forge_position_eq_capacity");
                }
                EntityAny::from_raw((((position & 0xFF_FFFF) << 8) | id as u32, generation)).ok().map(HKind::Ind)
            }
            Forge::Alien { .. } => None,
            Forge::Direct { a, idx } => {
                let ai = *a as usize % n;
                let am = &self.ms[wid].archs[ai];
                let ver = am.ver;
                if am.preset || ver > 200 {
                    None
                } else {
                    let want_idx = match idx % 8 {
                        0 | 6 | 7 => 0usize,
                        1 => am.len.saturating_sub(1),
                        2 => am.len,
                        3 => am.len + 1,
                        4 => am.cap.saturating_sub(1),
                        _ => am.cap,
                    };
                    // a version one off must be refused wherever the index points
                    let want_ver = match idx % 8 {
                        6 => ver.saturating_sub(1).max(1),
                        7 => ver + 1,
                        _ => ver,
                    };
                    if want_idx > 300 {
                        None
                    } else {
                        if idx % 8 == 2 {
                            self.stats.inc("forge_direct_index_eq_len");
                        }
                        self.scratch_direct(ai, want_ver, want_idx)
                    }
                }
            }
        };
        if let Some(k) = made {
            let ei = self.add_forged(k);
            self.stats.inc("F7_forged_handle");
            self.audit_entry(wid, ei, true);
        }
    }

    /// Mints, in a throw-away world, a direct handle for `ai` with archetype version `ver` and
    /// dense index `idx` (a "crossed wires" handle of another world).
    fn scratch_direct(&mut self, ai: usize, ver: u64, idx: usize) -> Option<HKind> {
        let d = W::archs()[ai];
        let caps = vec![0usize; W::archs().len()];
        let r = catch(|| {
            let mut s = W::with_caps(&caps);
            let p = payloads_for::<W>(ai, 7);
            for _ in 1..ver {
                let b = d.create(&mut s, Lvl::Arch, &p);
                d.destroy(&mut s, Lvl::Arch, Key::T(any_from_bits(b).unwrap()));
            }
            let mut last = 0;
            for _ in 0..=idx {
                last = d.create(&mut s, Lvl::Arch, &p);
            }
            let dd = d.to_direct(&s, Lvl::Arch, Key::T(any_from_bits(last).unwrap()));
            drop(s);
            dd
        });
        match r {
            Ok(Some(dd)) => Some(HKind::Dir(dd)),
            _ => None,
        }
    }

    pub fn exec(&mut self, op: &Op) {
        rt::h(&[0x09, op.tag()]);
        match op {
            Op::Create { a, lvl, p } => self.op_create(*a, *lvl, *p, false, None),
            Op::CreateWithin { a, lvl, p } => self.op_create(*a, *lvl, *p, true, None),
            Op::CreateLazy { a, p, fail } => self.op_create(*a, Lvl::Arch, *p, false, Some(*fail)),
            Op::Destroy { h, typed, lvl, cross, over, dp } => self.op_destroy(*h, *typed, *lvl, *cross, *over, *dp),
            Op::Write { h, typed, path, col, p } => self.op_write(*h, *typed, *path, *col, *p),
            Op::Mint { h, typed, lvl } => self.op_mint(*h, *typed, *lvl),
            Op::Scan { a, path, w } => self.op_scan(*a, *path, *w),
            Op::Query { site, mac, key, plan, dp } => self.op_query(*site, *mac, *key, plan, *dp),
            Op::CloneWorld { panic_at, probe } => self.op_clone_world(*panic_at, *probe),
            Op::Switch { n } => self.op_switch(*n),
            Op::DropWorld { panic_at } => self.op_drop_world(*panic_at),
            Op::ClearEvents { a } => self.op_clear_events(*a),
            Op::Fill { a } => self.op_fill(*a),
            Op::Forge { f } => self.op_forge(f),
            Op::Preset { a, slot_back, ver_back, bits } => self.op_preset(*a, *slot_back, *ver_back, *bits),
            Op::Cycle { a, n } => self.op_cycle(*a, *n),
            Op::Nest { accs, at } => self.op_nest(accs, *at),
            Op::ReplaceArch { a, .. } => self.op_replace_arch(*a),
            Op::AuditAll => self.audit_all_worlds(),
            Op::Bulk { a, n, p } => self.op_bulk(*a, *n, *p),
            Op::BulkDestroy { a, stride, phase } => self.op_bulk_destroy(*a, *stride, *phase),
            Op::Spawn { c } => self.op_spawn(*c),
            Op::CloneFrom { n } => self.op_clone_from(*n),
            Op::CloneFromX { n, a, panic_at, dp } => self.op_clone_from_x(*n, *a, *panic_at, *dp),
        }
    }

    /// End of run: refill, final audit everywhere, drop everything, exactly-once accounting.
    pub fn finish(&mut self, crash: bool) {
        if !crash {
            for wid in self.alive_worlds() {
                self.cur = wid;
                for ai in 0..W::archs().len() {
                    self.op_fill(ai as u8);
                    if rt::has_violation() {
                        return;
                    }
                }
            }
            self.audit_all_worlds();
            if rt::has_violation() {
                return;
            }
        }
        for wid in self.alive_worlds() {
            self.drop_world(wid, None);
            if rt::has_violation() {
                return;
            }
        }
        // registry: every value constructed during the run was dropped exactly once, except what
        // an injected fault is allowed to have leaked
        let leaks: Vec<(usize, usize)> = rt::with(|r| {
            let mut v = Vec::new();
            for (k, vals) in r.vals.iter().enumerate() {
                for (id, st) in vals.iter().enumerate() {
                    if *st == VState::Live {
                        v.push((k, id));
                    }
                }
            }
            v
        });
        for (k, id) in leaks {
            if !kind_has_drop(k as u8) {
                continue;
            }
            if !self.leak_ok.contains(&(k as u8, id as u32)) {
                vio("C04", "leak", format!("value kind={} id={} was never dropped", k, id));
                return;
            }
            self.stats.inc("tolerated_leak_after_fault");
        }
        let counters = rt::with(|r| r.counters);
        for k in 0..rt::NKINDS {
            if !kind_has_id(k as u8) && k != 6 {
                let c = counters[k];
                if c.dropped > c.made {
                    vio("C04", "double-drop", format!("kind {} constructed {} dropped {}", k, c.made, c.dropped));
                    return;
                }
                if c.made - c.dropped > self.leak_ok_noid[k] {
                    vio("C04", "leak", format!("kind {} constructed {} dropped {} (tolerated leaks {})", k, c.made, c.dropped, self.leak_ok_noid[k]));
                    return;
                }
            }
        }
    }
}

pub struct RunResult {
    pub hash: u64,
    pub stats: Stats,
    pub violations: Vec<rt::Violation>,
    pub findings: Vec<Finding>,
    pub steps: u32,
    pub state_hashes: std::collections::BTreeSet<u64>,
    pub trace: Option<Vec<String>>,
    pub failed_at: Option<u32>,
    pub yields: Vec<(u32, u8, u32)>,
    pub interleavings: std::collections::BTreeSet<u64>,
}

#[derive(Clone, Copy, Debug)]
pub struct RunOpts {
    pub trace: bool,
    pub heavy_audit: bool,
    pub scan_every: u32,
    /// interpreter tiers: audit only every 4th step (and at the end)
    pub lean: bool,
}

/// One run: a pure function of (spec, opts, build, code under test).
pub fn run_spec<W: WorldSpec>(spec: &RunSpec, opts: RunOpts) -> RunResult {
    rt::reset(opts.trace);
    let caps: Vec<usize> = spec.caps.iter().map(|c| *c as usize).collect();
    let mut failed_at = None;
    let mut steps = 0;
    let mut stats = Stats::default();
    let mut findings = Vec::new();
    let mut state_hashes = Default::default();
    let mut yields = Vec::new();
    let mut interleavings = Default::default();
    match Engine::<W>::new(&caps) {
        Ok(mut e) => {
            e.heavy_audit = opts.heavy_audit;
            e.scan_every = opts.scan_every;
            let limit = spec.crash_after.map(|c| c as usize).unwrap_or(usize::MAX);
            for (i, op) in spec.ops.iter().enumerate() {
                if i >= limit {
                    break;
                }
                e.step = i as u32;
                rt::trace(|| format!("#{} {}", i, crate::sx::ToSx::to_sx(op)));
                e.exec(op);
                if !rt::has_violation() && (!opts.lean || i % 4 == 3) {
                    e.audit_step(false);
                }
                steps += 1;
                if rt::has_violation() {
                    failed_at = Some(i as u32);
                    break;
                }
            }
            if failed_at.is_none() {
                e.step = spec.ops.len() as u32;
                e.finish(spec.crash_after.is_some() || opts.lean);
                if rt::has_violation() {
                    failed_at = Some(spec.ops.len() as u32);
                }
            } else {
                // tear down without further checks; leak the worlds if the state is suspect
                for w in e.ws.drain(..) {
                    std::mem::forget(w);
                }
            }
            stats = std::mem::take(&mut e.stats);
            findings = std::mem::take(&mut e.findings);
            state_hashes = std::mem::take(&mut e.state_hashes);
            yields = std::mem::take(&mut e.yields);
            interleavings = std::mem::take(&mut e.interleavings);
        }
        Err(c) => {
            let too_big = caps.iter().any(|c| *c > MAX_CAP);
            if too_big && c.msg.contains("capacity may not exceed") {
                stats.inc("F4_with_capacity_too_large");
            } else {
                vio("C12", "with-capacity-panicked", format!("with_capacity({:?}) panicked: {}", caps, c.msg));
                failed_at = Some(0);
            }
        }
    }
    let (hash, violations, trace) = rt::with(|r| (r.hash, std::mem::take(&mut r.violations), r.trace.take()));
    RunResult { hash, stats, violations, findings, steps, state_hashes, trace, failed_at, yields, interleavings }
}

/// Direct handles minted in scratch worlds of all three default-feature world types (archetype
/// ids 0, 1, 7, 8, 200, 255 / 9, 2 / 42), at dense indices 0..2 and archetype versions 1 and 2.
/// Rebuilt at every use (no cross-run cache: value ids are allocated per run).
pub fn alien_directs() -> Vec<gecs::prelude::EntityDirectAny> {
    fn from_world<X: WorldSpec>(out: &mut Vec<gecs::prelude::EntityDirectAny>) {
        let caps = vec![0usize; X::archs().len()];
        let r = catch(|| {
            let mut w = X::with_caps(&caps);
            let mut got = Vec::new();
            for (ai, d) in X::archs().iter().enumerate() {
                let p = payloads_for::<X>(ai, 11);
                let mut hs = Vec::new();
                for _ in 0..3 {
                    hs.push(d.create(&mut w, Lvl::Arch, &p));
                }
                for b in &hs {
                    if let Some(dd) = d.to_direct(&w, Lvl::Arch, Key::T(any_from_bits(*b).unwrap())) {
                        got.push(dd);
                    }
                }
                d.destroy(&mut w, Lvl::Arch, Key::T(any_from_bits(hs[2]).unwrap()));
                if let Some(dd) = d.to_direct(&w, Lvl::Arch, Key::T(any_from_bits(hs[0]).unwrap())) {
                    got.push(dd);
                }
            }
            drop(w);
            got
        });
        if let Ok(g) = r {
            out.extend(g);
        }
    }
    let mut out = Vec::new();
    from_world::<crate::worlds::wa::WA>(&mut out);
    from_world::<crate::worlds::w16::W16>(&mut out);
    from_world::<crate::worlds::wz::WZ>(&mut out);
    from_world::<crate::worlds::wf::WF>(&mut out);
    out
}
