//! Counter-distance boundary run on WA (hook-free, real operations only): stale handles whose
//! generation, and direct handles whose archetype version, lag behind the current value by
//! exactly d for every d in a list of "interesting" distances (1..=20, 2^k - 1, 2^k, 2^k + 1 up
//! to 2^17, multiples of 256 +- 1). A comparison that looks at fewer bits than the counter has
//! (a packed stamp, a narrowing cast, a mask) accepts again at one of these distances.

use gecs::prelude::*;

use crate::boundary::fail;

pub fn checkpoints(max: u32) -> Vec<u32> {
    let mut v: Vec<u32> = (1..=20).collect();
    for k in 5..=17u32 {
        v.extend([(1 << k) - 1, 1 << k, (1 << k) + 1]);
    }
    for j in 1..=12u32 {
        v.extend([j * 256 - 1, j * 256, j * 256 + 1]);
    }
    v.extend([1000, 10_000, 65_536 + 256, 100_000]);
    v.retain(|x| *x <= max);
    v.sort();
    v.dedup();
    v
}

pub fn epochs(v: &mut Vec<(String, String, String)>, facts: &mut Vec<(String, i128)>) {
    use crate::comps::{Comp, CompA, CompB};
    use crate::worlds::wa::*;
    crate::rt::reset(false);
    const MAX: u32 = 140_000;
    let cps = checkpoints(MAX);
    let mut w = WA::with_capacity(WACapacity { arch_q: 8, ..Default::default() });
    // a standing population whose members never move: 5 entities, created first
    let pool: Vec<Entity<ArchQ>> = (0..5u64).map(|i| w.create::<ArchQ>((CompA::make(1000 + i), CompB::make(i)))).collect();
    let pool_dir: Vec<EntityDirect<ArchQ>> = pool.iter().map(|e| w.to_direct(*e).unwrap()).collect();
    let pool_dir_any: Vec<EntityDirectAny> = pool.iter().map(|e| w.arch_q.to_direct(e.into_any()).unwrap()).collect();
    // cycle 0: the first occupant of the churned position
    let h0 = w.arch_q.create((CompA::make(7), CompB::make(7)));
    let h0_dir = w.to_direct(h0).unwrap();
    if w.destroy(h0).is_none() {
        fail(v, "C01", "epochs-setup", "destroy of a live entity failed".into());
        return;
    }
    // after this removal every pool direct handle is dead (distance 1) and must stay dead
    let mut checked = 0i128;
    let mut next_cp = 0usize;
    // the churned position now lags h0 by 1 generation; cycle i brings the distance to i + 1
    let mut dist: u32 = 1;
    loop {
        if next_cp < cps.len() && cps[next_cp] == dist {
            next_cp += 1;
            // a fresh occupant so that "accepted" would designate a real, different entity
            let cur = w.arch_q.create((CompA::make(0xC0FFEE), CompB::make(9)));
            // C01: the stale indirect handle, typed and dynamic, world and archetype level
            let a1 = w.contains(h0);
            let a2 = w.arch_q.contains(h0.into_any());
            let a3 = ecs_find!(w, h0.into_any(), |a: &CompA| a.obs().payload);
            let a4 = w.arch_q.resolve(h0);
            let a5 = w.to_direct(h0);
            if a1 || a2 || a3.is_some() || a4.is_some() || a5.is_some() {
                fail(v, "C01", "stale-handle-accepted-at-distance", format!("handle {:?} of a destroyed entity is accepted again after the position was released {} more times: contains {} / {} find {:?} resolve {:?} to_direct {:?}", h0, dist, a1, a2, a3, a4, a5));
                return;
            }
            // C09: direct handles issued `dist` removals ago
            for (i, d) in pool_dir.iter().enumerate() {
                let b1 = w.contains(*d);
                let b2 = w.arch_q.resolve(*d);
                let b3 = ecs_find!(w, *d, |a: &CompA| a.obs().payload);
                let b4 = ecs_find_borrow!(w, pool_dir_any[i], |a: &CompA| a.obs().payload);
                let b5 = w.arch_q.to_direct(pool_dir_any[i]);
                if b1 || b2.is_some() || b3.is_some() || b4.is_some() || b5.is_some() {
                    fail(v, "C09", "direct-handle-survived-removals", format!("direct handle {:?} is accepted after {} removals in its archetype: contains {} resolve {:?} find {:?} find_borrow {:?} to_direct {:?}", d, dist, b1, b2, b3, b4, b5));
                    return;
                }
            }
            let c1 = w.contains(h0_dir);
            if c1 || w.arch_q.resolve(h0_dir).is_some() {
                fail(v, "C09", "direct-handle-survived-removals", format!("direct handle {:?} of a destroyed entity is accepted after {} removals", h0_dir, dist));
                return;
            }
            // C01/C02: the standing population still answers with its own data
            for (i, e) in pool.iter().enumerate() {
                let got = ecs_find!(w, *e, |a: &CompA, b: &CompB| (a.obs().payload, b.obs().payload));
                if got != Some((1000 + i as u64, i as u64)) {
                    fail(v, "C02", "epochs-standing-entity", format!("standing entity {:?} reads {:?} after {} removals", e, got, dist));
                    return;
                }
            }
            // fresh direct handles work and designate their own entity
            let fd = w.to_direct(pool[2]);
            let ok = fd.and_then(|d| ecs_find!(w, d, |e: &Entity<ArchQ>| *e)) == Some(pool[2]);
            if !ok {
                fail(v, "C09", "fresh-direct-designates-other", format!("a fresh direct handle of {:?} does not reach it after {} removals", pool[2], dist));
                return;
            }
            checked += 1;
            if w.destroy(cur).is_none() {
                fail(v, "C01", "epochs-cycle", format!("destroy of a live entity failed at distance {}", dist));
                return;
            }
            dist += 1;
            continue;
        }
        if dist >= MAX || next_cp >= cps.len() {
            break;
        }
        let e = w.arch_q.create((CompA::make(dist as u64), CompB::make(1)));
        let gone = if dist % 2 == 0 { w.destroy(e).is_some() } else { w.arch_q.destroy(e.into_any()).is_some() };
        if !gone {
            fail(v, "C01", "epochs-cycle", format!("destroy of a live entity failed at distance {}", dist));
            return;
        }
        dist += 1;
    }
    if w.arch_q.len() != 5 {
        fail(v, "C12", "epochs-len", format!("len {} after the cycles, 5 standing entities", w.arch_q.len()));
    }
    facts.push(("epoch_distances_checked".into(), checked));
    facts.push(("removals".into(), dist as i128));
    drop(w);
    let leaks = crate::rt::with(|r| r.counters.iter().map(|c| c.made as i128 - c.dropped as i128).sum::<i128>());
    if leaks != 0 {
        fail(v, "C04", "epochs-leak", format!("{} values constructed but not dropped", leaks));
    }
}
