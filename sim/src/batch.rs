//! Batches of runs on worker threads, failure handling (confirm, minimise, replay file),
//! evidence parts as JSON.

use std::collections::{BTreeMap, BTreeSet};
use std::sync::atomic::{AtomicU64, Ordering};
use std::sync::Mutex;

use crate::engine::{build_cfg, mix, Stats};
use crate::gen::{gen_spec, shape_of, WorldShape};
use crate::json::J;
use crate::lifecycle::{run_spec, RunOpts, RunResult};
use crate::ops::*;
use crate::spec::*;
use crate::sx::{self, FromSx, ToSx};
use crate::worlds;

pub fn run_any(spec: &RunSpec, opts: RunOpts) -> RunResult {
    match spec.world.as_str() {
        "WA" => run_spec::<worlds::wa::WA>(spec, opts),
        "W16" => run_spec::<worlds::w16::W16>(spec, opts),
        "WZ" => run_spec::<worlds::wz::WZ>(spec, opts),
        "WF" => run_spec::<worlds::wf::WF>(spec, opts),
        #[cfg(feature = "32_components")]
        "W32" => run_spec::<worlds::w32::W32>(spec, opts),
        other => panic!("sim: unknown world {}", other),
    }
}

pub fn shape_any(name: &str) -> WorldShape {
    match name {
        "WA" => shape_of::<worlds::wa::WA>(),
        "W16" => shape_of::<worlds::w16::W16>(),
        "WZ" => shape_of::<worlds::wz::WZ>(),
        "WF" => shape_of::<worlds::wf::WF>(),
        #[cfg(feature = "32_components")]
        "W32" => shape_of::<worlds::w32::W32>(),
        other => panic!("sim: unknown world {}", other),
    }
}

pub fn prop_hash(p: &str) -> u64 {
    let mut h = 0xcbf29ce484222325u64;
    for b in p.bytes() {
        h ^= b as u64;
        h = h.wrapping_mul(0x100000001b3);
    }
    h
}

pub fn run_seed(seed: u64, prop: &str, idx: u64) -> u64 {
    mix(mix(seed, prop_hash(prop)), idx)
}

/// Which harness world a run uses (swarm: drawn from the run seed).
pub fn world_for(prop: &str, rs: u64, world_arg: Option<&str>) -> &'static str {
    if let Some(w) = world_arg {
        return match w {
            "WA" => "WA",
            "W16" => "W16",
            "WZ" => "WZ",
            "WF" => "WF",
            "W32" => "W32",
            _ => panic!("sim: unknown world"),
        };
    }
    let r = mix(rs, 0x3042) % 100;
    let wide = cfg!(feature = "32_components");
    match prop {
        "C03" => {
            // forged and alien handles against every world shape, incl. the single-archetype one
            if wide && r >= 90 {
                "W32"
            } else if r < 70 {
                "WA"
            } else if r < 80 {
                "W16"
            } else if r < 86 {
                "WF"
            } else {
                "WZ"
            }
        }
        "C11" | "C07" => {
            if wide && r >= 90 {
                "W32"
            } else if r < 78 {
                "WA"
            } else if r < 84 {
                "W16"
            } else {
                "WF"
            }
        }
        _ => {
            if wide && r >= 88 {
                "W32"
            } else if r < 70 {
                "WA"
            } else if r < 80 {
                "W16"
            } else if r < 84 {
                "WZ"
            } else {
                "WF"
            }
        }
    }
}

/// Interpreter tiers (Miri) run the same seeds with shorter histories and a lighter audit.
pub static LIGHT: std::sync::atomic::AtomicBool = std::sync::atomic::AtomicBool::new(false);
pub static MAXLEN: AtomicU64 = AtomicU64::new(u64::MAX);

pub fn opts_for(prop: &str) -> RunOpts {
    if LIGHT.load(Ordering::Relaxed) {
        return RunOpts { trace: false, heavy_audit: false, scan_every: 16, lean: true };
    }
    RunOpts {
        trace: false,
        heavy_audit: matches!(prop, "C01" | "C02" | "C09" | "C13"),
        scan_every: match prop {
            "C06" | "C02" => 1,
            "C11" | "C03" => 8,
            _ => 4,
        },
        lean: false,
    }
}

/// The non-triviality rule of each property, evaluated on the counters of one run.
pub fn nontrivial(prop: &str, s: &Stats) -> bool {
    match prop {
        "C01" => s.get("stale_probe_reuse_ge2") > 0 && s.get("growth_after_churn") > 0,
        "C02" => {
            let paths = ["write_view", "write_borrow", "write_slice", "write_bslice", "write_allslices", "write_find", "write_find_borrow", "write_iter_mut", "write_ecs_iter", "write_ecs_iter_borrow", "write_ecs_iter_destroy"];
            paths.iter().filter(|p| s.get(p) > 0).count() >= 3 && s.get("destroy_ok") > 0
        }
        "C03" => s.get("F7_forged_handle") >= 3 && s.get("destroy_ok") > 0,
        "C04" => s.get("destroy_ok") > 0 && s.get("growth") > 0 && s.get("world_dropped_nonempty") > 0,
        "C06" => s.get("scan_ok") >= 5 && s.get("destroy_ok") > 0 && (s.get("query_full_pass") > 0 || s.get("break_in_middle") + s.get("break_at_first") + s.get("break_at_last") > 0),
        "C07" => s.get("iter_destroy_destroyed") > 0 && s.get("iter_destroy_ok") > 0,
        "C08" => s.get("destroy_ok") >= 2 && s.get("create_after_reuse") + s.get("cycle_op") + s.get("growth_after_churn") > 0,
        "C09" => s.get("mint_direct") + s.get("direct_from_closure") > 0 && s.get("destroy_ok") > 0,
        "C10" => s.c.iter().any(|(k, v)| k.starts_with('F') && *v > 0 && (k.starts_with("F1") || k.starts_with("F2") || k.starts_with("F3") || k.starts_with("F4") || k.starts_with("F5") || k.starts_with("F6") || k.starts_with("F10"))),
        "C11" => s.get("F6_borrow_conflict") > 0 && s.get("c11_granted") > 0,
        "C12" => s.get("fill_to_capacity") > 0 && s.get("destroy_ok") > 0 && s.get("create_within_full") > 0,
        "C13" => s.get("F9_fork") > 0 && s.get("switch_world") > 0 && s.get("destroy_ok") > 0,
        "C17" => s.get("events_checked") > 0 && s.get("destroy_ok") > 0 && s.get("clear_events_archetype") + s.get("clear_events_world") > 0,
        _ => s.get("destroy_ok") > 0 && s.get("growth") > 0,
    }
}

#[derive(Clone)]
pub struct Failure {
    pub unit: u64,
    pub spec: RunSpec,
    pub prop: String,
    pub clause: String,
    pub detail: String,
}

/// The specs of one work unit. `random`: one spec. `crash`: the base history and every crash
/// point of it (F8 enumerated). `faults`: the base history and one variant per yield point with a
/// panic injected there (F1/F2/F3/F10 enumerated). `c07`: ecs_iter_destroy! decision vectors.
pub fn unit_specs(prop: &str, mode: &str, seed: u64, unit: u64, world_arg: Option<&str>) -> Vec<RunSpec> {
    let rs = run_seed(seed, prop, unit);
    let cfg = build_cfg();
    let mut v = unit_specs_inner(prop, mode, seed, unit, world_arg, rs, cfg);
    let ml = MAXLEN.load(Ordering::Relaxed);
    if ml != u64::MAX {
        for s in v.iter_mut() {
            s.ops.truncate(ml as usize);
        }
    }
    if LIGHT.load(Ordering::Relaxed) {
        // interpreter tiers: no magnitude members
        for s in v.iter_mut() {
            s.ops.retain(|o| !matches!(o, Op::Bulk { .. } | Op::BulkDestroy { .. }));
            for o in s.ops.iter_mut() {
                if let Op::Cycle { n, .. } = o {
                    *n = (*n).min(5);
                }
            }
            for c in s.caps.iter_mut() {
                *c = (*c).min(16);
            }
        }
    }
    v
}

fn unit_specs_inner(prop: &str, mode: &str, seed: u64, unit: u64, world_arg: Option<&str>, rs: u64, cfg: crate::engine::BuildCfg) -> Vec<RunSpec> {
    match mode {
        "c07" => vec![c07_enum_spec(rs, unit)],
        "c06" => vec![c06_enum_spec(seed, unit)],
        "sizes" => vec![sizes_enum_spec(rs, unit)],
        "c11q" => vec![c11q_enum_spec(rs, unit)],
        "sizesf" => vec![sizesf_enum_spec(rs, unit)],
        "c12" => vec![c12_enum_spec(rs, unit)],
        "c11" => vec![c11_enum_spec(rs, unit)],
        m if m.starts_with("long") => {
            // long:<n> = histories of about n operations (default 3000)
            let n: u32 = m.split(':').nth(1).and_then(|x| x.parse().ok()).unwrap_or(3000);
            let wn = world_for(prop, rs, world_arg);
            let sh = shape_any(wn);
            vec![crate::gen::gen_long_spec(prop, rs, &sh, cfg, n / 2 + (rs % (n as u64).max(1)) as u32)]
        }
        _ => {
            let wn = world_for(prop, rs, world_arg);
            let sh = shape_any(wn);
            vec![gen_spec(prop, rs, &sh, cfg)]
        }
    }
}

/// Population sizes worth hitting exactly: everything small, and the neighbourhood of every
/// power of two and of the multiples of 16 / 256 (chunked loops, narrowing casts, thresholds).
pub fn sizes_list() -> Vec<u32> {
    let mut v: Vec<u32> = (0..=72).collect();
    for k in 5..=20u32 {
        v.extend([k * 16 - 1, k * 16, k * 16 + 1]);
    }
    for k in 6..=13u32 {
        v.extend([(1 << k) - 1, 1 << k, (1 << k) + 1]);
    }
    for k in 1..=8u32 {
        v.extend([k * 256 - 1, k * 256, k * 256 + 1]);
    }
    v.extend([1000, 1500, 3000, 5000]);
    v.sort();
    v.dedup();
    v
}

/// One population of exactly n entities in one archetype (optionally after scattered removals
/// and refills that bring it back to exactly n), every iteration path, a fork, and then every
/// world dropped with exactly that population (no refill: `crash_after`).
pub fn sizes_enum_spec(rs: u64, unit: u64) -> RunSpec {
    let sizes = sizes_list();
    let n = sizes[(unit % sizes.len() as u64) as usize];
    let variant = unit / sizes.len() as u64;
    let mut rng = crate::gen::Rng::new(rs);
    let (world, narch): (&str, u64) = if variant % 7 == 6 { ("W16", 2) } else { ("WA", 6) };
    let a = (variant % narch) as u8;
    let mut ops = Vec::new();
    ops.push(Op::Bulk { a, n, p: rng.next() });
    if (variant / narch) % 2 == 1 && n > 2 {
        // churn that returns to exactly n: destroy every k-th, create the same number again
        let stride = 2 + rng.below(5) as u32;
        let phase = rng.below(stride as u64) as u32;
        ops.push(Op::BulkDestroy { a, stride, phase });
        let removed = (0..n).filter(|i| (i + phase) % stride == 0).count() as u32;
        ops.push(Op::Bulk { a, n: removed, p: rng.next() });
    }
    for p in SPATHS {
        ops.push(Op::Scan { a, path: p, w: None });
    }
    let nsites = if world == "WA" { 13 } else { 2 };
    for site in 0..nsites {
        ops.push(Op::Query { site, mac: QMacro::Iter, key: None, plan: vec![], dp: None });
        ops.push(Op::Query { site, mac: QMacro::IterBorrow, key: None, plan: vec![], dp: None });
    }
    ops.push(Op::CloneWorld { panic_at: None, probe: None });
    ops.push(Op::Switch { n: 1 });
    ops.push(Op::Scan { a, path: SPATHS[(variant % 7) as usize], w: None });
    let cap = match rng.below(3) {
        0 => 0,
        1 => n,
        _ => rng.below(8) as u32,
    };
    let mut caps = vec![0u32; narch as usize];
    caps[a as usize] = cap;
    let len = ops.len() as u32;
    RunSpec { world: world.into(), caps, ops, crash_after: Some(len) }
}

/// Accesses from inside borrow-mode query closures, enumerated: 8 sites x {ecs_iter_borrow!,
/// ecs_find_borrow!} x 6 inner access kinds x inner mutability x {aimed at the visited column,
/// elsewhere} = 384 cells, at a sampled world state.
pub const C11Q_CELLS: u64 = 13 * 2 * 8 * 2 * 2;
pub fn c11q_enum_spec(rs: u64, unit: u64) -> RunSpec {
    let mut c = unit % C11Q_CELLS;
    let mut take = |n: u64| {
        let r = c % n;
        c /= n;
        r
    };
    let site = take(13) as u8;
    let find = take(2) == 1;
    let kind = C11_INNER[take(8) as usize];
    let m = take(2) == 1;
    let aimed = take(2) == 0;
    let mut rng = crate::gen::Rng::new(rs);
    let mut ops = Vec::new();
    for a in 0..6u8 {
        for _ in 0..(1 + rng.below(3)) {
            ops.push(Op::Create { a, lvl: Lvl::Arch, p: rng.next() });
        }
    }
    if rng.chance(1, 2) {
        ops.push(Op::Destroy { h: Sel { class: SEL_LIVE, n: rng.next() as u32 }, typed: true, lvl: Lvl::Arch, cross: 0, over: false, dp: None });
    }
    // `ent` even = aim at the visited archetype/column (see QState::on_visit)
    let ent = if aimed { 2 * rng.below(3) as u32 } else { 1 + 2 * rng.below(3) as u32 };
    let acc = Access { kind, a: rng.below(6) as u8, col: rng.below(8) as u8, m, ent };
    let plan: Vec<VisitAct> = (0..4).map(|_| VisitAct { step: Step::Continue, w: None, inner: Inner::Acc { acc }, panic: false }).collect();
    let (mac, key) = if find { (QMacro::FindBorrow, Some(Sel { class: SEL_LIVE, n: rng.next() as u32 })) } else { (QMacro::IterBorrow, None) };
    ops.push(Op::Query { site, mac, key, plan, dp: None });
    ops.push(Op::Create { a: 1, lvl: Lvl::World, p: rng.next() });
    RunSpec { world: "WA".into(), caps: vec![rng.below(4) as u32; 6], ops, crash_after: None }
}

pub const SIZESF_POS: u64 = 10;

/// Faults at magnitude: a population of exactly n entities, then a fork with a panic from the
/// k-th Clone::clone and a world drop with a panic from the k-th Drop::drop, k enumerated over
/// position classes (first, second, around 64, middle, last row; last cell), followed by use.
pub fn sizesf_enum_spec(rs: u64, unit: u64) -> RunSpec {
    let sizes: Vec<u32> = sizes_list().into_iter().filter(|n| *n >= 1 && *n <= 2100).collect();
    let n = sizes[(unit % sizes.len() as u64) as usize];
    let rest = unit / sizes.len() as u64;
    let posc = rest % SIZESF_POS;
    let a = ((rest / SIZESF_POS) % 6) as u8;
    let ncols: u32 = [1, 2, 3, 5, 3, 1][a as usize];
    let cells = n * ncols;
    let mut rng = crate::gen::Rng::new(rs);
    let pos = |c: u64, rng: &mut crate::gen::Rng| -> u32 {
        match c {
            0 => 0,
            1 => 1,
            2 => 63,
            3 => 64,
            4 => 65,
            5 => n / 2,
            6 => n.saturating_sub(1),
            7 => n,
            8 => cells.saturating_sub(1),
            _ => rng.below(cells.max(1) as u64) as u32,
        }
        .min(cells.saturating_sub(1))
    };
    let k1 = pos(posc, &mut rng);
    let k2 = pos((posc + 3) % SIZESF_POS, &mut rng);
    let mut ops = vec![Op::Bulk { a, n, p: rng.next() }];
    ops.push(Op::CloneWorld { panic_at: Some(k1), probe: None });
    ops.push(Op::Create { a, lvl: Lvl::World, p: rng.next() });
    ops.push(Op::Scan { a, path: SPATHS[(rest % 7) as usize], w: None });
    ops.push(Op::CloneWorld { panic_at: None, probe: None });
    ops.push(Op::DropWorld { panic_at: Some(k2) });
    ops.push(Op::Create { a, lvl: Lvl::Arch, p: rng.next() });
    ops.push(Op::Destroy { h: Sel { class: SEL_LIVE, n: rng.next() as u32 }, typed: false, lvl: Lvl::World, cross: 0, over: false, dp: Some(rng.below(ncols as u64) as u32) });
    ops.push(Op::Scan { a, path: SPATHS[((rest + 3) % 7) as usize], w: None });
    let mut caps = vec![0u32; 6];
    caps[a as usize] = if rng.chance(1, 2) { n } else { 0 };
    let len = ops.len() as u32;
    RunSpec { world: "WA".into(), caps, ops, crash_after: Some(len) }
}

pub const C06_COMBOS: u64 = 13 * 2 * 13;

/// Break positions enumerated: for a sampled state (a seeded history prefix shared by the 182
/// units of one family) each of the 7 query sites x {ecs_iter!, ecs_iter_borrow!} is run with
/// Break returned at visit k, k = 0..=11, and once without Break.
pub fn c06_enum_spec(seed: u64, unit: u64) -> RunSpec {
    let family = unit / C06_COMBOS;
    let mut c = unit % C06_COMBOS;
    let site = (c % 13) as u8;
    c /= 13;
    let mac = if c % 2 == 0 { QMacro::Iter } else { QMacro::IterBorrow };
    c /= 2;
    let brk = c; // 12 = never
    let rs = run_seed(seed, "C06-family", family);
    let sh = shape_any("WA");
    let mut s = gen_spec("C12", rs, &sh, build_cfg());
    s.ops.retain(|o| matches!(o, Op::Create { .. } | Op::CreateWithin { .. } | Op::Destroy { .. } | Op::Fill { .. } | Op::Cycle { .. }));
    s.ops.truncate(24);
    let plan: Vec<VisitAct> = (0..=brk.min(11))
        .map(|k| VisitAct { step: if k == brk { Step::Break } else { Step::Continue }, w: None, inner: Inner::Nothing, panic: false })
        .collect();
    s.ops.push(Op::Query { site, mac, key: None, plan, dp: None });
    s
}

pub const C07_COMBOS: u64 = 1 + 4 + 16 + 64 + 256 + 1024;

/// All 4^n decision vectors for n <= 5 visits. Variant 0: site S3 (exactly ArchT); variant 1:
/// site S0 (three matched archetypes, the n entities spread over them); variant 2: site S4 (all
/// six archetypes). The variant is (unit / 1365) % 3, so 3 x 1365 units are one full sweep.
pub fn c07_enum_spec(rs: u64, unit: u64) -> RunSpec {
    let mut c = unit % C07_COMBOS;
    let variant = (unit / C07_COMBOS) % 3;
    let mut n = 0u32;
    let mut pow = 1u64;
    while c >= pow {
        c -= pow;
        pow *= 4;
        n += 1;
    }
    let mut rng = crate::gen::Rng::new(rs);
    let (site, archs): (u8, &[u8]) = match variant {
        0 => (3, &[3]),
        1 => (0, &[0, 1, 3]),
        _ => (4, &[0, 1, 2, 3, 4, 5]),
    };
    let extra = rng.below(4) as u32;
    let mut ops = Vec::new();
    for _ in 0..(n + extra) {
        let a = archs[rng.below(archs.len() as u64) as usize];
        ops.push(Op::Create { a, lvl: if rng.chance(1, 2) { Lvl::Arch } else { Lvl::World }, p: rng.next() });
    }
    for _ in 0..extra {
        ops.push(Op::Destroy { h: Sel { class: SEL_LIVE, n: rng.next() as u32 }, typed: true, lvl: Lvl::Arch, cross: 0, over: false, dp: None });
    }
    let steps = [Step::Continue, Step::Break, Step::ContinueDestroy, Step::BreakDestroy];
    let plan: Vec<VisitAct> = (0..n).map(|i| VisitAct { step: steps[((c >> (2 * i)) & 3) as usize], w: None, inner: Inner::Nothing, panic: false }).collect();
    ops.push(Op::Query { site, mac: QMacro::IterDestroy, key: None, plan, dp: None });
    ops.push(Op::Create { a: archs[0], lvl: Lvl::World, p: rng.next() });
    let caps: Vec<u32> = (0..6).map(|_| rng.below(4) as u32).collect();
    RunSpec { world: "WA".into(), caps, ops, crash_after: None }
}

/// Initial capacities 0..=64 enumerated, each followed by a seeded churn history and refills.
pub fn c12_enum_spec(rs: u64, unit: u64) -> RunSpec {
    let extra = [100u32, 127, 128, 129, 255, 256, 257, 511, 512, 513, 1000, 1023, 1024, 1025, 4096, 65535, 65536, 65537];
    let k = (unit % (65 + extra.len() as u64)) as usize;
    let cap = if k < 65 { k as u32 } else { extra[k - 65] };
    let cfg = build_cfg();
    let sh = shape_any("WA");
    let mut s = gen_spec("C12", rs, &sh, cfg);
    // all archetypes for small capacities; one archetype for the large ones
    s.caps = if cap <= 64 { vec![cap; sh.narch] } else { (0..sh.narch).map(|i| if i as u64 == (unit / 83) % sh.narch as u64 { cap } else { (unit % 5) as u32 }).collect() };
    s
}

pub const C11_KINDS: [AccKind; 6] = [AccKind::FindBorrow, AccKind::IterBorrow, AccKind::BorrowComp, AccKind::BorrowSlice, AccKind::CloneWorld, AccKind::CloneArch];
/// inner accesses: the six above plus `clone_from` with the borrowed world as the SOURCE (world and archetype level)
pub const C11_INNER: [AccKind; 8] = [AccKind::FindBorrow, AccKind::IterBorrow, AccKind::BorrowComp, AccKind::BorrowSlice, AccKind::CloneWorld, AccKind::CloneArch, AccKind::CloneFromWorld, AccKind::CloneFromArch];

/// The access matrix enumerated: outer kind x inner kind x outer mutability x inner mutability x
/// {same column, other column, other archetype} x {same entity, other entity, empty archetype}.
pub const C11_CELLS: u64 = 6 * 8 * 2 * 2 * 3 * 3;
pub fn c11_enum_spec(rs: u64, unit: u64) -> RunSpec {
    let mut c = unit % C11_CELLS;
    let mut take = |n: u64| {
        let r = c % n;
        c /= n;
        r
    };
    let ok = C11_KINDS[take(6) as usize];
    let ik = C11_INNER[take(8) as usize];
    let om = take(2) == 1;
    let im = take(2) == 1;
    let place = take(3);
    let entity = take(3);
    let mut rng = crate::gen::Rng::new(rs);
    // ArchQ (index 1: CompA, CompB) is the outer archetype; ArchT (index 3) the "other" one
    let (oa, oc) = (1u8, rng.below(2) as u8);
    let (ia, ic) = match place {
        0 => (oa, oc),
        1 => (oa, 1 - oc),
        _ => (3u8, rng.below(5) as u8),
    };
    let mut ops = Vec::new();
    let populate = entity != 2;
    if populate {
        for _ in 0..(2 + rng.below(3)) {
            ops.push(Op::Create { a: 1, lvl: Lvl::Arch, p: rng.next() });
            ops.push(Op::Create { a: 3, lvl: Lvl::World, p: rng.next() });
        }
        if rng.chance(1, 2) {
            ops.push(Op::Destroy { h: Sel { class: SEL_LIVE, n: rng.next() as u32 }, typed: true, lvl: Lvl::Arch, cross: 0, over: false, dp: None });
        }
    }
    let oe = rng.below(3) as u32;
    let ie = if entity == 0 { oe } else { oe + 1 };
    ops.push(Op::Nest {
        accs: vec![Access { kind: ok, a: oa, col: oc, m: om, ent: oe }, Access { kind: ik, a: ia, col: ic, m: im, ent: ie }],
        at: rng.below(4) as u32,
    });
    ops.push(Op::Create { a: 1, lvl: Lvl::World, p: rng.next() });
    RunSpec { world: "WA".into(), caps: vec![rng.below(3) as u32; 6], ops, crash_after: None }
}

/// Variants of a base history with a fault at every yield point that the base run reached.
pub fn fault_variants(base: &RunSpec, yields: &[(u32, u8, u32)], cap_per_op: u32) -> Vec<RunSpec> {
    fault_variants_idx(base, yields, cap_per_op).into_iter().map(|(_, s)| s).collect()
}

/// Two faults in one history ("a second panic in the same world later"): pairs of single-fault
/// variants on different operations, merged. `pick` is a deterministic stream of choices.
pub fn fault_pairs(base: &RunSpec, yields: &[(u32, u8, u32)], cap_per_op: u32, want: usize, mut pick: impl FnMut() -> u64) -> Vec<RunSpec> {
    let singles = fault_variants_idx(base, yields, cap_per_op);
    let mut out = Vec::new();
    if singles.len() < 2 {
        return out;
    }
    for _ in 0..want * 4 {
        if out.len() >= want {
            break;
        }
        let a = &singles[(pick() % singles.len() as u64) as usize];
        let b = &singles[(pick() % singles.len() as u64) as usize];
        if a.0 == b.0 {
            continue;
        }
        let mut s = a.1.clone();
        s.ops[b.0] = b.1.ops[b.0].clone();
        out.push(s);
    }
    out
}

pub fn fault_variants_idx(base: &RunSpec, yields: &[(u32, u8, u32)], cap_per_op: u32) -> Vec<(usize, RunSpec)> {
    let mut out = Vec::new();
    for (opi, kind, count) in yields {
        let i = *opi as usize;
        if i >= base.ops.len() {
            continue;
        }
        if *kind == 8 {
            // closure visits of a nested macro: (outer visit << 8 | nested visits)
            let (ok, cnt) = ((*count >> 8) as usize, (*count & 0xFF).min(cap_per_op));
            for j in 0..cnt {
                let mut s = base.clone();
                if let Op::Query { plan, .. } = &mut s.ops[i] {
                    for p in plan.iter_mut() {
                        p.panic = false;
                    }
                    if let Some(VisitAct { inner: Inner::OtherQuery { pk, .. }, .. }) = plan.get_mut(ok) {
                        *pk = j + 1;
                        out.push((i, s));
                    }
                }
            }
            continue;
        }
        let n = (*count).min(cap_per_op);
        for j in 0..n {
            // spread the sampled points over the whole range when it is larger than the cap
            let k = if *count > cap_per_op { (j as u64 * *count as u64 / cap_per_op as u64) as u32 } else { j };
            let mut s = base.clone();
            let changed = match (&mut s.ops[i], kind) {
                (Op::Query { plan, .. }, 0) => {
                    while plan.len() <= k as usize {
                        plan.push(VisitAct { step: Step::Continue, w: None, inner: Inner::Nothing, panic: false });
                    }
                    for p in plan.iter_mut() {
                        p.panic = false;
                    }
                    plan[k as usize].panic = true;
                    true
                }
                (Op::Query { dp, plan, .. }, 5) => {
                    for p in plan.iter_mut() {
                        p.panic = false;
                    }
                    *dp = Some(k);
                    true
                }
                (Op::CloneWorld { panic_at, .. }, 1) => {
                    *panic_at = Some(k);
                    true
                }
                (Op::DropWorld { panic_at }, 2) => {
                    *panic_at = Some(k);
                    true
                }
                (Op::Destroy { dp, .. }, 3) => {
                    *dp = Some(k);
                    true
                }
                (Op::CloneFromX { panic_at, dp, .. }, 6) => {
                    *panic_at = Some(k);
                    *dp = None;
                    true
                }
                (Op::CloneFromX { panic_at, dp, .. }, 7) => {
                    *panic_at = None;
                    *dp = Some(k);
                    true
                }
                (Op::CreateLazy { fail, .. }, 4) => {
                    *fail = true;
                    true
                }
                _ => false,
            };
            if changed {
                out.push((i, s));
            }
        }
    }
    out
}

pub struct Acc {
    pub evaluations: u64,
    pub steps: u64,
    pub stats: Stats,
    pub nontrivial_hashes: BTreeSet<u64>,
    pub all_hashes: BTreeSet<u64>,
    pub state_hashes: BTreeSet<u64>,
    pub interleavings: BTreeSet<u64>,
    pub samples: BTreeMap<u64, String>,
    pub findings: BTreeMap<(String, String), (u64, String)>,
    pub failure: Option<Failure>,
    pub units: u64,
}

impl Acc {
    pub fn new() -> Self {
        Acc {
            evaluations: 0,
            steps: 0,
            stats: Stats::default(),
            nontrivial_hashes: BTreeSet::new(),
            all_hashes: BTreeSet::new(),
            state_hashes: BTreeSet::new(),
            interleavings: BTreeSet::new(),
            samples: BTreeMap::new(),
            findings: BTreeMap::new(),
            failure: None,
            units: 0,
        }
    }
    pub fn merge(&mut self, o: Acc) {
        self.evaluations += o.evaluations;
        self.steps += o.steps;
        self.units += o.units;
        self.stats.merge(&o.stats);
        self.nontrivial_hashes.extend(o.nontrivial_hashes);
        self.all_hashes.extend(o.all_hashes);
        self.state_hashes.extend(o.state_hashes);
        self.interleavings.extend(o.interleavings);
        for (k, v) in o.samples {
            self.samples.insert(k, v);
        }
        while self.samples.len() > 3 {
            let k = *self.samples.keys().next_back().unwrap();
            self.samples.remove(&k);
        }
        for (k, (n, ex)) in o.findings {
            let e = self.findings.entry(k).or_insert((0, ex));
            e.0 += n;
        }
        match (&self.failure, o.failure) {
            (None, f) => self.failure = f,
            (Some(a), Some(b)) if b.unit < a.unit => self.failure = Some(b),
            _ => {}
        }
    }
}

fn short_spec(s: &RunSpec) -> String {
    let mut t = s.clone();
    if t.ops.len() > 14 {
        t.ops.truncate(14);
    }
    let x = t.to_sx().to_string();
    if s.ops.len() > 14 {
        format!("{} ...(+{} ops)", x, s.ops.len() - 14)
    } else {
        x
    }
}

pub fn exec_one(prop: &str, spec: &RunSpec, unit: u64, acc: &mut Acc, opts: RunOpts) -> RunResult {
    let r = run_any(spec, opts);
    acc.evaluations += 1;
    acc.steps += r.steps as u64;
    acc.stats.merge(&r.stats);
    acc.all_hashes.insert(r.hash);
    acc.state_hashes.extend(r.state_hashes.iter().copied());
    acc.interleavings.extend(r.interleavings.iter().copied());
    for f in &r.findings {
        let e = acc.findings.entry((f.prop.to_string(), f.clause.to_string())).or_insert((0, f.detail.clone()));
        e.0 += 1;
    }
    if r.violations.is_empty() {
        if nontrivial(prop, &r.stats) && acc.nontrivial_hashes.insert(r.hash) && acc.samples.len() < 3 {
            acc.samples.insert(unit, short_spec(spec));
        }
    } else if acc.failure.is_none() {
        let v = &r.violations[0];
        acc.failure = Some(Failure { unit, spec: spec.clone(), prop: v.prop.to_string(), clause: v.clause.to_string(), detail: v.detail.clone() });
    }
    r
}

pub fn run_unit(prop: &str, mode: &str, seed: u64, unit: u64, world_arg: Option<&str>, acc: &mut Acc) {
    let opts = opts_for(prop);
    acc.units += 1;
    let specs = unit_specs(prop, mode, seed, unit, world_arg);
    for base in specs {
        let r = exec_one(prop, &base, unit, acc, opts);
        if acc.failure.is_some() {
            return;
        }
        // magnitude members are too heavy to re-execute once per fault point: the sizes/sizesf
        // modes cover faults at magnitude
        let heavy = base.ops.iter().any(|o| matches!(o, Op::Bulk { .. }));
        match mode {
            _ if heavy => {}
            "crash" => {
                // F8 at every prefix of the history
                for c in 0..=base.ops.len() as u32 {
                    let mut s = base.clone();
                    s.crash_after = Some(c);
                    exec_one(prop, &s, unit, acc, opts);
                    acc.stats.inc("crash_points_enumerated");
                    if acc.failure.is_some() {
                        return;
                    }
                }
            }
            "faults" => {
                let vars = fault_variants(&base, &r.yields, 24);
                for s in vars {
                    exec_one(prop, &s, unit, acc, opts);
                    acc.stats.inc("fault_points_enumerated");
                    if acc.failure.is_some() {
                        return;
                    }
                }
                // two faults in one history, on different operations (sampled pairs)
                let mut st = mix(mix(seed, unit), 0xD0B1E);
                let pairs = fault_pairs(&base, &r.yields, 24, 8, || {
                    st = mix(st, 0x9E37);
                    st
                });
                for s in pairs {
                    exec_one(prop, &s, unit, acc, opts);
                    acc.stats.inc("fault_pairs_sampled");
                    if acc.failure.is_some() {
                        return;
                    }
                }
            }
            _ => {}
        }
    }
}

pub fn cmd_batch(m: &BTreeMap<String, String>) -> i32 {
    let prop = m.get("prop").cloned().unwrap_or_else(|| "C01".into());
    let mode = m.get("mode").cloned().unwrap_or_else(|| "random".into());
    let seed: u64 = m.get("seed").and_then(|s| s.parse().ok()).unwrap_or(1);
    let units: u64 = m.get("units").and_then(|s| s.parse().ok()).unwrap_or(1000);
    let start: u64 = m.get("start").and_then(|s| s.parse().ok()).unwrap_or(0);
    let threads: usize = m.get("threads").and_then(|s| s.parse().ok()).unwrap_or(16);
    let world_arg = m.get("world").cloned();
    if m.contains_key("light") {
        LIGHT.store(true, Ordering::Relaxed);
    }
    if let Some(ml) = m.get("maxlen").and_then(|s| s.parse::<u64>().ok()) {
        MAXLEN.store(ml, Ordering::Relaxed);
    }
    let t0 = std::time::Instant::now();
    let next = AtomicU64::new(start);
    let min_fail = AtomicU64::new(u64::MAX);
    let total = Mutex::new(Acc::new());
    std::thread::scope(|sc| {
        for _ in 0..threads.max(1) {
            sc.spawn(|| {
                let mut acc = Acc::new();
                loop {
                    let u = next.fetch_add(1, Ordering::SeqCst);
                    if u >= start + units || u > min_fail.load(Ordering::SeqCst) {
                        break;
                    }
                    run_unit(&prop, &mode, seed, u, world_arg.as_deref(), &mut acc);
                    if let Some(f) = &acc.failure {
                        min_fail.fetch_min(f.unit, Ordering::SeqCst);
                    }
                }
                total.lock().unwrap().merge(acc);
            });
        }
    });
    let mut acc = total.into_inner().unwrap();
    let wall = t0.elapsed().as_secs_f64();
    let cfg = build_cfg();
    let mut code = 0;
    let mut fail_json = J::Null;
    if let Some(f) = acc.failure.take() {
        code = 1;
        let dir = m.get("replay-dir").cloned().unwrap_or_else(|| "/verif/replays".into());
        let (path, min_spec, confirmed) = crate::shrink::handle_failure(&prop, &f, &dir, seed);
        fail_json = J::obj(vec![
            ("unit", J::i(f.unit as i128)),
            ("property", J::s(f.prop.clone())),
            ("clause", J::s(f.clause.clone())),
            ("detail", J::s(f.detail.clone())),
            ("replay", J::s(path.clone())),
            ("confirmed", J::Bool(confirmed)),
            ("minimised_ops", J::i(min_spec.ops.len() as i128)),
            ("original_ops", J::i(f.spec.ops.len() as i128)),
        ]);
        if !confirmed {
            code = 2;
        }
    }
    let stats_j = J::Obj(acc.stats.c.iter().map(|(k, v)| (k.to_string(), J::i(*v as i128))).collect());
    let findings_j = J::Arr(
        acc.findings
            .iter()
            .map(|((p, c), (n, ex))| J::obj(vec![("property", J::s(p.clone())), ("clause", J::s(c.clone())), ("count", J::i(*n as i128)), ("example", J::s(ex.clone()))]))
            .collect(),
    );
    let out = J::obj(vec![
        ("property", J::s(prop.clone())),
        ("mode", J::s(mode.clone())),
        ("seed", J::i(seed as i128)),
        ("units", J::i(acc.units as i128)),
        ("evaluations", J::i(acc.evaluations as i128)),
        ("steps", J::i(acc.steps as i128)),
        ("distinct_nontrivial", J::i(acc.nontrivial_hashes.len() as i128)),
        ("distinct_runs", J::i(acc.all_hashes.len() as i128)),
        ("distinct_states", J::i(acc.state_hashes.len() as i128)),
        ("distinct_interleavings", J::i(acc.interleavings.len() as i128)),
        ("samples", J::Arr(acc.samples.values().map(|s| J::s(s.clone())).collect())),
        ("stats", stats_j),
        ("findings", findings_j),
        ("failure", fail_json),
        ("wall_s", J::Float(wall)),
        ("threads", J::i(threads as i128)),
        (
            "build",
            J::obj(vec![
                ("debug_assertions", J::Bool(cfg.debug)),
                ("events", J::Bool(cfg.events)),
                ("wrapping_version", J::Bool(cfg.wrapping)),
                ("32_components", J::Bool(cfg!(feature = "32_components"))),
                ("hooks", J::Bool(cfg.hooks)),
            ]),
        ),
    ]);
    let text = out.to_string();
    match m.get("out") {
        Some(p) => std::fs::write(p, &text).expect("sim: cannot write --out"),
        None => println!("{}", text),
    }
    code
}

pub fn parse_replay(text: &str) -> Result<RunSpec, String> {
    let body: String = text.lines().filter(|l| !l.trim_start().starts_with('#')).collect::<Vec<_>>().join("\n");
    let sx = sx::parse(&body)?;
    RunSpec::from_sx(&sx)
}

pub fn cmd_replay(m: &BTreeMap<String, String>) -> i32 {
    let path = match m.get("_") {
        Some(p) => p.clone(),
        None => {
            eprintln!("usage: gecs-sim replay <file> [--prop P]");
            return 2;
        }
    };
    let text = match std::fs::read_to_string(&path) {
        Ok(t) => t,
        Err(e) => {
            eprintln!("cannot read {}: {}", path, e);
            return 2;
        }
    };
    let spec = match parse_replay(&text) {
        Ok(s) => s,
        Err(e) => {
            eprintln!("cannot parse {}: {}", path, e);
            return 2;
        }
    };
    let prop = m.get("prop").cloned().unwrap_or_else(|| {
        text.lines().find_map(|l| l.strip_prefix("# property=").map(|s| s.split_whitespace().next().unwrap_or("").to_string())).unwrap_or_else(|| "C01".into())
    });
    let mut opts = opts_for(&prop);
    opts.trace = true;
    let r = run_any(&spec, opts);
    if let Some(t) = &r.trace {
        for l in t {
            println!("{}", l);
        }
    }
    println!("hash={:#018x} steps={}", r.hash, r.steps);
    for f in &r.findings {
        println!("FINDING property={} clause={} {}", f.prop, f.clause, f.detail);
    }
    if r.violations.is_empty() {
        println!("no violation");
        0
    } else {
        for v in &r.violations {
            println!("VIOLATED property={} clause={} at_step={:?}: {}", v.prop, v.clause, r.failed_at, v.detail);
        }
        1
    }
}

pub fn cmd_hashes(m: &BTreeMap<String, String>) -> i32 {
    let prop = m.get("prop").cloned().unwrap_or_else(|| "DIFF".into());
    let mode = m.get("mode").cloned().unwrap_or_else(|| "random".into());
    let seed: u64 = m.get("seed").and_then(|s| s.parse().ok()).unwrap_or(1);
    let units: u64 = m.get("units").and_then(|s| s.parse().ok()).unwrap_or(100);
    let start: u64 = m.get("start").and_then(|s| s.parse().ok()).unwrap_or(0);
    let threads: usize = m.get("threads").and_then(|s| s.parse().ok()).unwrap_or(1);
    let world_arg = m.get("world").cloned();
    let next = AtomicU64::new(start);
    let out = Mutex::new(BTreeMap::new());
    std::thread::scope(|sc| {
        for _ in 0..threads.max(1) {
            sc.spawn(|| loop {
                let u = next.fetch_add(1, Ordering::SeqCst);
                if u >= start + units {
                    break;
                }
                let mut acc = Acc::new();
                let specs = unit_specs(&prop, &mode, seed, u, world_arg.as_deref());
                let mut h = 0u64;
                let mut viol = 0;
                for s in &specs {
                    let r = exec_one(&prop, s, u, &mut acc, opts_for(&prop));
                    h = mix(h, r.hash);
                    viol += r.violations.len();
                }
                out.lock().unwrap().insert(u, (h, viol));
            });
        }
    });
    for (u, (h, v)) in out.into_inner().unwrap() {
        println!("{} {:016x} {}", u, h, v);
    }
    0
}

/// Executes one spec file and prints its event-log hash (used by the cross-build differential).
pub fn cmd_hash_spec(m: &BTreeMap<String, String>) -> i32 {
    let path = match m.get("_") {
        Some(p) => p.clone(),
        None => return 2,
    };
    let text = match std::fs::read_to_string(&path) {
        Ok(t) => t,
        Err(_) => return 2,
    };
    let spec = match parse_replay(&text) {
        Ok(s) => s,
        Err(e) => {
            eprintln!("cannot parse {}: {}", path, e);
            return 2;
        }
    };
    let r = run_any(&spec, opts_for("DIFF"));
    println!("{:016x} {}", r.hash, r.violations.len());
    0
}

pub fn cmd_gen(m: &BTreeMap<String, String>) -> i32 {
    let prop = m.get("prop").cloned().unwrap_or_else(|| "C01".into());
    let mode = m.get("mode").cloned().unwrap_or_else(|| "random".into());
    let seed: u64 = m.get("seed").and_then(|s| s.parse().ok()).unwrap_or(1);
    let unit: u64 = m.get("unit").and_then(|s| s.parse().ok()).unwrap_or(0);
    for s in unit_specs(&prop, &mode, seed, unit, m.get("world").map(|s| s.as_str())) {
        println!("{}", crate::shrink::pretty(&s));
    }
    0
}
