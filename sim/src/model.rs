//! The executable reference model: a map from handle bits to entity records per world, plus
//! per-archetype counters. No `unsafe`, no layout knowledge, no dense order, no growth formula.

use std::collections::{BTreeMap, BTreeSet};

use gecs::prelude::{EntityAny, EntityDirectAny};

use crate::comps::Obs;
use crate::spec::Bits;

#[derive(Clone, Debug)]
pub struct ArchM {
    pub len: usize,
    pub cap: usize,
    /// removals since the archetype was constructed (direct handles die with any removal)
    pub removals: u64,
    pub creations: u64,
    /// predicted archetype version (starts at 1, +1 per removal; preset by the hook)
    pub ver: u64,
    /// last archetype version observed through the hook, and the removal count at that time
    pub ver_obs: u64,
    pub rem_at_obs: u64,
    /// last generation observed per position through the hook (C08 early warning)
    pub slot_gens: Vec<u32>,
    pub preset: bool,
    /// last value of the public `Archetype::version()` and the removal count at that time
    pub pub_ver: Option<(gecs::version::ArchetypeVersion, u64)>,
    pub created_ev: Vec<Bits>,
    pub destroyed_ev: Vec<Bits>,
}

#[derive(Clone, Debug)]
pub struct Rec {
    pub arch: usize,
    pub cols: Vec<Obs>,
}

#[derive(Clone, Debug)]
pub struct Model {
    pub archs: Vec<ArchM>,
    pub ents: BTreeMap<Bits, Rec>,
    /// live entities per archetype (index into `ents`)
    pub by_arch: Vec<BTreeSet<Bits>>,
    /// every handle ever returned by a create call in this world's lineage (C08)
    pub issued: BTreeSet<Bits>,
    /// (archetype, slot) pairs whose generation wrapped (wrapping_version only)
    pub wrapped: BTreeSet<(usize, u32)>,
}

impl Model {
    pub fn clear_entities(&mut self) {
        self.ents.clear();
        for s in self.by_arch.iter_mut() {
            s.clear();
        }
    }

    pub fn new(caps: &[usize]) -> Self {
        Model {
            archs: caps
                .iter()
                .map(|c| ArchM { len: 0, cap: *c, removals: 0, creations: 0, ver: 1, ver_obs: 0, rem_at_obs: 0, slot_gens: Vec::new(), preset: false, pub_ver: None, created_ev: Vec::new(), destroyed_ev: Vec::new() })
                .collect(),
            ents: BTreeMap::new(),
            by_arch: caps.iter().map(|_| BTreeSet::new()).collect(),
            issued: BTreeSet::new(),
            wrapped: BTreeSet::new(),
        }
    }

    pub fn live_of(&self, arch: usize) -> Vec<Bits> {
        self.by_arch[arch].iter().copied().collect()
    }

    pub fn insert(&mut self, bits: Bits, arch: usize, cols: Vec<Obs>) {
        self.ents.insert(bits, Rec { arch, cols });
        self.by_arch[arch].insert(bits);
        let a = &mut self.archs[arch];
        a.len += 1;
        a.creations += 1;
        a.created_ev.push(bits);
        self.issued.insert(bits);
    }

    pub fn remove(&mut self, bits: Bits, wrapping: bool) -> Option<Rec> {
        let r = self.ents.remove(&bits)?;
        self.by_arch[r.arch].remove(&bits);
        let a = &mut self.archs[r.arch];
        a.len -= 1;
        a.removals += 1;
        a.ver = next_ver(a.ver, wrapping);
        a.destroyed_ev.push(bits);
        if wrapping && (bits as u32) == u32::MAX {
            self.wrapped.insert((r.arch, (bits >> 40) as u32));
        }
        Some(r)
    }
}

pub fn next_ver(v: u64, wrapping: bool) -> u64 {
    if v >= u32::MAX as u64 {
        if wrapping {
            1
        } else {
            v // cannot advance: the operation panics instead
        }
    } else {
        v + 1
    }
}

#[derive(Clone, Copy, Debug)]
pub enum HKind {
    Ind(EntityAny),
    Dir(EntityDirectAny),
}

#[derive(Clone, Copy, Debug, PartialEq, Eq)]
pub struct Native {
    pub world: usize,
    pub removals: u64,
    pub creations: u64,
    /// predicted archetype version at issue (direct handles)
    pub ver: u64,
}

/// One entry of the handle book: every handle ever seen, of any age and kind.
#[derive(Clone, Debug)]
pub struct HEntry {
    pub kind: HKind,
    pub bits: Bits,
    pub arch_byte: u8,
    pub forged: bool,
    /// worlds in which this handle was genuinely issued (or inherited through clone), with the
    /// archetype's epochs at issue (meaningful for direct handles)
    pub natives: Vec<Native>,
    /// the entity a direct handle was issued for
    pub target: Bits,
    pub step: u32,
}

impl HEntry {
    pub fn native_in(&self, world: usize) -> Option<Native> {
        self.natives.iter().copied().find(|n| n.world == world)
    }
    pub fn is_direct(&self) -> bool {
        matches!(self.kind, HKind::Dir(_))
    }
}

#[derive(Clone, Copy, Debug, PartialEq, Eq)]
pub enum Tri {
    Yes,
    No,
    Maybe,
}

#[derive(Clone, Copy, Debug)]
pub struct Exp {
    pub acc: Tri,
    pub target: Option<Bits>,
    /// a clean panic with a documented message is an acceptable answer (forged / foreign input)
    pub panic_ok: bool,
    /// the key is a typed key whose archetype byte differs from the archetype it is used on
    pub cross_typed: bool,
}
