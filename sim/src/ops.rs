//! The operation alphabet. A run is a `RunSpec`: configuration plus a list of `Op`s, generated
//! from the seed *without feedback from execution*, so that any sub-sequence is executable and
//! replay needs no PRNG. Handle references are selectors resolved against the handle book at
//! execution time.

use crate::spec::{Lvl, QMacro, RPath, SPath, Step};
use crate::{sx_enum, sx_struct};

sx_struct! {
    /// Selects a handle from the book: class picks a sub-population (falling back to the whole
    /// book when empty), `n` indexes into it modulo its size.
    #[derive(Clone, Copy, Debug, PartialEq, Eq)]
    pub struct Sel { pub class: u8, pub n: u32 }
}

pub const SEL_ANY: u8 = 0;
pub const SEL_LIVE: u8 = 1;
pub const SEL_DEAD: u8 = 2;
pub const SEL_DIRECT: u8 = 3;
pub const SEL_RECENT: u8 = 4;
pub const SEL_FOREIGN: u8 = 5;
pub const SEL_FORGED: u8 = 6;
pub const SEL_DIRECT_FRESH: u8 = 7;
pub const SEL_CLASSES: u8 = 8;

sx_enum! {
    #[derive(Clone, Copy, Debug, PartialEq, Eq)]
    pub enum AccKind { FindBorrow, IterBorrow, BorrowComp, BorrowSlice, CloneWorld, DoubleFind, DoubleIter, CloneArch, CloneFromWorld, CloneFromArch }
}

sx_struct! {
    /// One runtime-borrowed access of the C11 matrix.
    #[derive(Clone, Copy, Debug, PartialEq, Eq)]
    pub struct Access { pub kind: AccKind, pub a: u8, pub col: u8, pub m: bool, pub ent: u32 }
}

sx_enum! {
    #[derive(Clone, Debug, PartialEq, Eq)]
    pub enum Inner {
        Nothing,
        // mut-mode sneaky site: create in the unmatched archetype handed to the closure
        OtherCreate { p: u64 },
        // mut-mode sneaky site: destroy the n-th entity of the unmatched archetype
        OtherDestroy { n: u32 },
        // borrow-mode: a nested runtime-borrowed access on the same world
        Acc { acc: Access },
        // borrow-mode: audit a few handles through `&self` paths while the query is in flight
        Peek { h: Sel },
        // mut-mode sneaky site: a nested query macro (kind % 3: ecs_iter!, ecs_iter_destroy!, ecs_find!)
        // on the unmatched archetype, from inside the closure of the query in flight; pk = k + 1: the
        // closure of the nested macro panics at its k-th visit (0 = never)
        OtherQuery { kind: u8, n: u32, mask: u32, pk: u32 },
        // mut-mode: a whole `ecs_iter_destroy!` of the SAME site on ANOTHER world (a replica or an
        // unrelated world of the same type) from inside the closure: the same archetype types are in
        // flight in two worlds at once
        AltQuery { n: u32, mask: u32 },
    }
}

sx_struct! {
    /// What the scheduler does at one visit of an in-flight query.
    #[derive(Clone, Debug, PartialEq, Eq)]
    pub struct VisitAct { pub step: Step, pub w: Option<(u8, u64)>, pub inner: Inner, pub panic: bool }
}

sx_enum! {
    #[derive(Clone, Debug, PartialEq, Eq)]
    pub enum Forge {
        // flip bits of a book handle
        Flip { h: Sel, mk: u32, mv: u32 },
        // arbitrary raw value
        Raw { key: u32, ver: u32 },
        // aimed at the current layout (hook dump): archetype (declared index, or 255+ = undeclared id),
        // position class, generation class
        Aimed { a: u8, idb: u8, pos: u8, n: u32, gen: u8 },
        // a direct handle minted in a scratch world so that its version equals ours; `idx` class
        // 0: index 0, 1: len-1, 2: len, 3: len+1, 4: capacity-1, 5: capacity, 6/7: index 0 with version -1/+1
        Direct { a: u8, idx: u8 },
        // a direct handle minted in a world of ANOTHER TYPE (other archetype ids), picked from a
        // fixed list built from scratch WA / W16 / WZ worlds
        Alien { n: u32 },
    }
}

sx_enum! {
    #[derive(Clone, Debug, PartialEq, Eq)]
    pub enum Op {
        Create { a: u8, lvl: Lvl, p: u64 },
        CreateWithin { a: u8, lvl: Lvl, p: u64 },
        CreateLazy { a: u8, p: u64, fail: bool },
        Destroy { h: Sel, typed: bool, lvl: Lvl, cross: u8, over: bool, dp: Option<u32> },
        Write { h: Sel, typed: bool, path: RPath, col: u8, p: u64 },
        Mint { h: Sel, typed: bool, lvl: Lvl },
        Scan { a: u8, path: SPath, w: Option<(u32, u8, u64)> },
        Query { site: u8, mac: QMacro, key: Option<Sel>, plan: Vec<VisitAct>, dp: Option<u32> },
        CloneWorld { panic_at: Option<u32>, probe: Option<(u32, Access)> },
        Switch { n: u8 },
        DropWorld { panic_at: Option<u32> },
        ClearEvents { a: Option<u8> },
        Fill { a: u8 },
        Forge { f: Forge },
        Preset { a: u8, slot_back: u32, ver_back: u32, bits: Option<u8> },
        Cycle { a: u8, n: u32 },
        Nest { accs: Vec<Access>, at: u32 },
        ReplaceArch { a: u8, cap: Option<u32> },
        AuditAll,
        Bulk { a: u8, n: u32, p: u64 },
        BulkDestroy { a: u8, stride: u32, phase: u32 },
        Spawn { c: u64 },
        CloneFrom { n: u8 },
        // clone_from at world level (a = None) or on one archetype (a = Some), optionally with a
        // Clone panic (panic_at) or a Drop panic of the overwritten content (dp)
        CloneFromX { n: u8, a: Option<u8>, panic_at: Option<u32>, dp: Option<u32> },
    }
}

sx_struct! {
    #[derive(Clone, Debug, PartialEq, Eq)]
    pub struct RunSpec {
        pub world: String,
        pub caps: Vec<u32>,
        pub ops: Vec<Op>,
        // crash point (F8): drop every world after this many ops (None = run all, then the end-of-run protocol)
        pub crash_after: Option<u32>,
    }
}

impl Op {
    pub fn name(&self) -> &'static str {
        match self {
            Op::Create { .. } => "Create",
            Op::CreateWithin { .. } => "CreateWithin",
            Op::CreateLazy { .. } => "CreateLazy",
            Op::Destroy { .. } => "Destroy",
            Op::Write { .. } => "Write",
            Op::Mint { .. } => "Mint",
            Op::Scan { .. } => "Scan",
            Op::Query { .. } => "Query",
            Op::CloneWorld { .. } => "CloneWorld",
            Op::Switch { .. } => "Switch",
            Op::DropWorld { .. } => "DropWorld",
            Op::ClearEvents { .. } => "ClearEvents",
            Op::Fill { .. } => "Fill",
            Op::Forge { .. } => "Forge",
            Op::Preset { .. } => "Preset",
            Op::Cycle { .. } => "Cycle",
            Op::Nest { .. } => "Nest",
            Op::ReplaceArch { .. } => "ReplaceArch",
            Op::AuditAll => "AuditAll",
            Op::Bulk { .. } => "Bulk",
            Op::BulkDestroy { .. } => "BulkDestroy",
            Op::Spawn { .. } => "Spawn",
            Op::CloneFrom { .. } => "CloneFrom",
            Op::CloneFromX { .. } => "CloneFromX",
        }
    }
    pub fn tag(&self) -> u64 {
        match self {
            Op::Create { .. } => 1,
            Op::CreateWithin { .. } => 2,
            Op::CreateLazy { .. } => 3,
            Op::Destroy { .. } => 4,
            Op::Write { .. } => 5,
            Op::Mint { .. } => 6,
            Op::Scan { .. } => 7,
            Op::Query { .. } => 8,
            Op::CloneWorld { .. } => 9,
            Op::Switch { .. } => 10,
            Op::DropWorld { .. } => 11,
            Op::ClearEvents { .. } => 12,
            Op::Fill { .. } => 13,
            Op::Forge { .. } => 14,
            Op::Preset { .. } => 15,
            Op::Cycle { .. } => 16,
            Op::Nest { .. } => 17,
            Op::ReplaceArch { .. } => 18,
            Op::AuditAll => 19,
            Op::Bulk { .. } => 20,
            Op::BulkDestroy { .. } => 21,
            Op::Spawn { .. } => 22,
            Op::CloneFrom { .. } => 23,
            Op::CloneFromX { .. } => 24,
        }
    }
}
