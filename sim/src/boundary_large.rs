//! Large-population boundary run on WA (separate module: each world exports its own query macros).

use gecs::prelude::*;

use crate::boundary::fail;

/// A large population with real data columns (crosses 2^16 and 2^17 positions): values read back
/// through several paths, removals at scattered positions, refill, full passes.
pub fn large(v: &mut Vec<(String, String, String)>, facts: &mut Vec<(String, i128)>) {
    use crate::comps::{Comp, CompA, CompB};
    use crate::worlds::wa::*;
    crate::rt::reset(false);
    const N: usize = 300_000;
    let pa = |i: usize| (i as u64).wrapping_mul(0x9E3779B97F4A7C15) ^ 0xA5A5;
    let pb = |i: usize| ((i as u64).wrapping_mul(31) ^ 0x77) & 0xFFFF;
    let mut w = WA::with_capacity(WACapacity { arch_q: 7, ..Default::default() });
    let mut hs: Vec<Entity<ArchQ>> = Vec::with_capacity(N);
    let mut alive = vec![true; N];
    for i in 0..N {
        let e = if i % 2 == 0 { w.create::<ArchQ>((CompA::make(pa(i)), CompB::make(pb(i)))) } else { w.arch_q.create((CompA::make(pa(i)), CompB::make(pb(i)))) };
        hs.push(e);
    }
    let check_one = |w: &mut WA, i: usize, alive: bool, v: &mut Vec<(String, String, String)>| {
        let e = hs[i];
        let got = ecs_find!(w, e, |a: &CompA, b: &CompB| (a.obs().payload, b.obs().payload));
        let got2 = w.arch_q.borrow(e.into_any()).map(|bw| (bw.component::<CompA>().obs().payload, bw.component::<CompB>().obs().payload));
        let want = if alive { Some((pa(i), pb(i))) } else { None };
        if got != want || got2 != want || w.contains(e) != alive {
            fail(v, if alive { "C02" } else { "C01" }, "large-population-lookup", format!("entity #{} ({:?}): find {:?} borrow {:?} contains {} expected {:?}", i, e, got, got2, w.contains(e), want));
        }
    };
    for i in (0..N).step_by(997).chain([65535usize, 65536, 65537, 131071, 131072, N - 1]) {
        check_one(&mut w, i, true, v);
    }
    // direct handles at large dense indices designate their own entity
    for i in [0usize, 255, 256, 65535, 65536, 65537, 70000, 131071, 131072, 200_000, N - 1] {
        let e = hs[i];
        let d = w.to_direct(e).unwrap();
        let da = w.arch_q.to_direct(e.into_any()).unwrap();
        let g1 = ecs_find!(w, d, |x: &Entity<ArchQ>, a: &CompA| (*x, a.obs().payload));
        let g2 = ecs_find_borrow!(w, da, |x: &Entity<ArchQ>, a: &CompA| (*x, a.obs().payload));
        let g3 = w.arch_q.resolve(d).map(|idx| w.arch_q.entities()[idx]);
        if g1 != Some((e, pa(i))) || g2 != Some((e, pa(i))) || g3 != Some(e) {
            fail(v, "C09", "fresh-direct-designates-other", format!("direct handle of entity #{} ({:?}) reaches {:?} / {:?} / {:?}", i, e, g1, g2, g3));
        }
    }
    // scattered removals through all key kinds
    let mut removed = 0usize;
    let mut i = 3usize;
    while i < N {
        let e = hs[i];
        let ok = match removed % 4 {
            0 => w.destroy(e).is_some(),
            1 => w.destroy(e.into_any()).is_some(),
            2 => {
                let d = w.to_direct(e).unwrap();
                w.destroy(d).is_some()
            }
            _ => {
                let d = w.arch_q.to_direct(e.into_any()).unwrap();
                w.arch_q.destroy(d).is_some()
            }
        };
        if !ok {
            fail(v, "C01", "live-handle-rejected-by-destroy", format!("destroy of entity #{} failed", i));
            return;
        }
        alive[i] = false;
        removed += 1;
        i += 7 + (i % 13);
    }
    if w.arch_q.len() != N - removed {
        fail(v, "C12", "len-mismatch", format!("len {} after {} of {} removed", w.arch_q.len(), removed, N));
    }
    // one full pass: every live entity exactly once with its own values
    let mut seen = 0usize;
    let mut bad = 0usize;
    let index: std::collections::HashMap<(u32, u32), usize> = hs.iter().enumerate().map(|(i, e)| (e.into_any().raw(), i)).collect();
    ecs_iter!(w, |e: &Entity<ArchQ>, a: &CompA, b: &CompB| {
        seen += 1;
        match index.get(&e.into_any().raw()) {
            Some(i) if alive[*i] && a.obs().payload == pa(*i) && b.obs().payload == pb(*i) => {}
            _ => bad += 1,
        }
    });
    if seen != N - removed || bad != 0 {
        fail(v, "C06", "large-population-pass", format!("pass saw {} items ({} wrong), {} alive", seen, bad, N - removed));
    }
    for i in (0..N).step_by(1009).chain([65535usize, 65536, 65537, 131071, 131072]) {
        check_one(&mut w, i, alive[i], v);
    }
    // refill to exactly capacity without growing
    let cap = w.arch_q.capacity();
    let room = cap - w.arch_q.len();
    let mut refilled = 0usize;
    while let Ok(e) = w.arch_q.create_within_capacity((CompA::make(1), CompB::make(2))) {
        refilled += 1;
        if index.contains_key(&e.into_any().raw()) {
            fail(v, "C08", "handle-issued-twice", format!("refill returned an old handle {:?}", e));
            return;
        }
        if refilled > room {
            break;
        }
    }
    if refilled != room || w.arch_q.capacity() != cap {
        fail(v, "C12", "cannot-refill-to-capacity", format!("refilled {} of {} free positions, capacity {} -> {}", refilled, room, cap, w.arch_q.capacity()));
    }
    // fork at this size: the replica answers like the original (sampled), then diverges
    {
        let mut c = w.clone();
        if c.arch_q.len() != w.arch_q.len() || c.arch_q.capacity() != w.arch_q.capacity() {
            fail(v, "C13", "clone-len-capacity", format!("clone len {} capacity {} vs {} {}", c.arch_q.len(), c.arch_q.capacity(), w.arch_q.len(), w.arch_q.capacity()));
        }
        for i in (0..N).step_by(499).chain([4095usize, 4096, 4097, 65535, 65536, 65537, 131072, N - 1]) {
            check_one(&mut c, i, alive[i], v);
        }
        let mut seen_c = 0usize;
        let mut bad_c = 0usize;
        ecs_iter_borrow!(c, |e: &Entity<ArchQ>, a: &CompA, b: &CompB| {
            seen_c += 1;
            if let Some(i) = index.get(&e.into_any().raw()) {
                if !(alive[*i] && a.obs().payload == pa(*i) && b.obs().payload == pb(*i)) {
                    bad_c += 1;
                }
            }
        });
        if seen_c != c.arch_q.len() || bad_c != 0 {
            fail(v, "C13", "clone-values", format!("clone pass saw {} items, {} with values that are not their entity's", seen_c, bad_c));
        }
        let some = hs.iter().enumerate().find(|(i, _)| alive[*i]).map(|(i, e)| (i, *e)).unwrap();
        c.destroy(some.1);
        if !w.contains(some.1) || c.contains(some.1) {
            fail(v, "C13", "clone-not-independent", "a destroy in the clone is visible in the original (or not in the clone)".into());
        }
        drop(c);
    }
    // drain completely, then reuse: no old handle may come back, no old handle may resolve
    let all: Vec<Entity<ArchQ>> = w.arch_q.entities().to_vec();
    for e in &all {
        if w.arch_q.destroy(*e).is_none() {
            fail(v, "C01", "live-handle-rejected-by-destroy", format!("drain: destroy({:?}) returned None", e));
            return;
        }
    }
    if w.arch_q.len() != 0 || !w.arch_q.is_empty() {
        fail(v, "C12", "len-mismatch", format!("after draining len {}", w.arch_q.len()));
    }
    let issued: std::collections::HashSet<(u32, u32)> = all.iter().map(|e| e.into_any().raw()).chain(hs.iter().map(|e| e.into_any().raw())).collect();
    for k in 0..2000usize {
        let e = w.arch_q.create((CompA::make(3), CompB::make(4)));
        if issued.contains(&e.into_any().raw()) {
            fail(v, "C08", "handle-issued-twice", format!("after a complete drain, creation {} returned the old handle {:?}", k, e));
            return;
        }
    }
    for i in (0..N).step_by(1013) {
        if w.contains(hs[i]) {
            fail(v, "C01", "dead-handle-accepted", format!("stale handle #{} resolves after drain and reuse", i));
            return;
        }
    }
    facts.push(("large_drained_then_reused".into(), 2000));
    facts.push(("large_entities".into(), N as i128));
    facts.push(("large_removed".into(), removed as i128));
    facts.push(("large_refilled".into(), refilled as i128));
    drop(w);
    let leaked = crate::rt::with(|r| r.vals.iter().map(|k| k.iter().filter(|s| **s == crate::rt::VState::Live).count()).sum::<usize>());
    let viol = crate::rt::with(|r| r.violations.clone());
    if leaked != 0 {
        fail(v, "C04", "leak", format!("{} values never dropped after the large run", leaked));
    }
    for x in viol {
        fail(v, x.prop, x.clause, x.detail);
    }
}

