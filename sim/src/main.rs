#![allow(dead_code)]
#![allow(clippy::all)]

mod audit;
mod batch;
mod boundary;
mod boundary_large;
mod boundary_epochs;
mod comps;
mod engine;
mod exec;
mod gen;
mod json;
mod lifecycle;
mod model;
mod ops;
mod query;
mod rt;
mod shrink;
mod spec;
mod sx;
mod worlds;

use std::collections::BTreeMap;

fn args_map(args: &[String]) -> BTreeMap<String, String> {
    let mut m = BTreeMap::new();
    let mut i = 0;
    while i < args.len() {
        if let Some(k) = args[i].strip_prefix("--") {
            if i + 1 < args.len() && !args[i + 1].starts_with("--") {
                m.insert(k.to_string(), args[i + 1].clone());
                i += 2;
            } else {
                m.insert(k.to_string(), "1".to_string());
                i += 1;
            }
        } else {
            m.entry("_".to_string()).or_insert_with(|| args[i].clone());
            i += 1;
        }
    }
    m
}

fn main() {
    // Every panic in a run is caught and classified by the engine; keep stderr quiet.
    std::panic::set_hook(Box::new(|_| {}));
    let args: Vec<String> = std::env::args().skip(1).collect();
    if args.is_empty() {
        eprintln!("usage: gecs-sim <batch|replay|hashes|gen|info> [--key value ...]");
        std::process::exit(2);
    }
    let m = args_map(&args[1..]);
    let code = match args[0].as_str() {
        "batch" => batch::cmd_batch(&m),
        "replay" => batch::cmd_replay(&m),
        "hashes" => batch::cmd_hashes(&m),
        "gen" => batch::cmd_gen(&m),
        "hash-spec" => batch::cmd_hash_spec(&m),
        "boundary" => boundary::cmd_boundary(&m),
        "info" => {
            let c = engine::build_cfg();
            println!("wrapping={} events={} debug={} hooks={} wide32={}", c.wrapping, c.events, c.debug, c.hooks, cfg!(feature = "32_components"));
            0
        }
        other => {
            eprintln!("unknown command {}", other);
            2
        }
    };
    std::process::exit(code);
}
