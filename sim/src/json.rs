//! Minimal JSON writer (no dependencies).

pub enum J {
    Null,
    Bool(bool),
    Int(i128),
    Float(f64),
    Str(String),
    Arr(Vec<J>),
    Obj(Vec<(String, J)>),
}

impl J {
    pub fn s(x: impl Into<String>) -> J {
        J::Str(x.into())
    }
    pub fn i(x: impl Into<i128>) -> J {
        J::Int(x.into())
    }
    pub fn obj(v: Vec<(&str, J)>) -> J {
        J::Obj(v.into_iter().map(|(k, v)| (k.to_string(), v)).collect())
    }
    pub fn write(&self, out: &mut String) {
        match self {
            J::Null => out.push_str("null"),
            J::Bool(b) => out.push_str(if *b { "true" } else { "false" }),
            J::Int(i) => out.push_str(&i.to_string()),
            J::Float(f) => {
                if f.is_finite() {
                    out.push_str(&format!("{:.3}", f))
                } else {
                    out.push_str("0")
                }
            }
            J::Str(s) => {
                out.push('"');
                for c in s.chars() {
                    match c {
                        '"' => out.push_str("\\\""),
                        '\\' => out.push_str("\\\\"),
                        '\n' => out.push_str("\\n"),
                        '\t' => out.push_str("\\t"),
                        '\r' => out.push_str("\\r"),
                        c if (c as u32) < 0x20 => out.push_str(&format!("\\u{:04x}", c as u32)),
                        c => out.push(c),
                    }
                }
                out.push('"');
            }
            J::Arr(v) => {
                out.push('[');
                for (i, x) in v.iter().enumerate() {
                    if i > 0 {
                        out.push(',');
                    }
                    x.write(out);
                }
                out.push(']');
            }
            J::Obj(v) => {
                out.push('{');
                for (i, (k, x)) in v.iter().enumerate() {
                    if i > 0 {
                        out.push(',');
                    }
                    J::Str(k.clone()).write(out);
                    out.push(':');
                    x.write(out);
                }
                out.push('}');
            }
        }
    }
    pub fn to_string(&self) -> String {
        let mut s = String::new();
        self.write(&mut s);
        s
    }
}
