//! The seam between the simulator and real gecs code: everything in here calls the public gecs
//! API (or a generated macro) on a real world and reports what it saw in plain data.

use std::marker::PhantomData;

use gecs::prelude::*;

use crate::comps::{CompDyn, Obs};

pub type Bits = u64;

#[inline]
pub fn abits(e: EntityAny) -> Bits {
    let (k, v) = e.raw();
    ((k as u64) << 32) | v as u64
}

#[inline]
pub fn any_from_bits(b: Bits) -> Option<EntityAny> {
    EntityAny::from_raw(((b >> 32) as u32, b as u32)).ok()
}

/// The 64 bits a direct handle feeds to `Hash` ((key << 32) | version): public, stable, and the
/// only way to look inside a direct handle without a hook.
pub fn dbits(d: EntityDirectAny) -> Bits {
    use std::hash::{Hash, Hasher};
    // an identity for the handle's value derived from everything it feeds to `Hash` (equal
    // handles hash equally; distinct handles feed distinct (key, version) data); robust against
    // a change of how the fields are written
    struct Cap(u64);
    impl Hasher for Cap {
        fn finish(&self) -> u64 {
            self.0
        }
        fn write(&mut self, bytes: &[u8]) {
            for chunk in bytes.chunks(8) {
                let mut b = [0u8; 8];
                b[..chunk.len()].copy_from_slice(chunk);
                self.0 = self.0.rotate_left(32) ^ u64::from_le_bytes(b);
            }
        }
        fn write_u64(&mut self, i: u64) {
            self.0 = self.0.rotate_left(32) ^ i;
        }
        fn write_u32(&mut self, i: u32) {
            self.0 = self.0.rotate_left(32) ^ i as u64;
        }
    }
    let mut c = Cap(0);
    d.hash(&mut c);
    c.0
}

crate::sx_enum! {
    #[derive(Clone, Copy, Debug, PartialEq, Eq)]
    pub enum Lvl {
        World,
        Arch,
    }
}

/// A key as handed to gecs: which of the four key kinds, and how a typed key is obtained.
#[derive(Clone, Copy, Debug)]
pub enum Key {
    /// `Entity<A>`: checked conversion when the archetype byte matches, `from_any_unchecked` otherwise.
    T(EntityAny),
    /// `Entity<A>` forged by overwriting a genuine `Entity<A>` through `<&mut EntityAny>::from`.
    TO(EntityAny, EntityAny),
    /// `EntityAny`
    A(EntityAny),
    /// `EntityDirect<A>` (checked when the archetype byte matches, unchecked otherwise)
    DT(EntityDirectAny),
    /// `EntityDirectAny`
    DA(EntityDirectAny),
}

impl Key {
    pub fn is_direct(&self) -> bool {
        matches!(self, Key::DT(_) | Key::DA(_))
    }
    pub fn is_typed(&self) -> bool {
        matches!(self, Key::T(_) | Key::TO(..) | Key::DT(_))
    }
    pub fn tag(&self) -> u64 {
        match self {
            Key::T(_) => 0,
            Key::TO(..) => 1,
            Key::A(_) => 2,
            Key::DT(_) => 3,
            Key::DA(_) => 4,
        }
    }
    pub fn bits(&self) -> Bits {
        match self {
            Key::T(a) | Key::TO(a, _) | Key::A(a) => abits(*a),
            Key::DT(d) | Key::DA(d) => dbits(*d),
        }
    }
}

/// The documented contract of the checked constructor, in every build: `from_any` panics for a
/// handle of another archetype (part of the event log, so that builds can be compared).
fn checked_conversion_refuses(what: &str, refused: bool) {
    crate::rt::h(&[0xF4A1, refused as u64]);
    if !refused {
        crate::rt::violate("C03", "checked-conversion-accepted-other-archetype", format!("{}::from_any accepted a handle of another archetype without panicking", what));
    }
}

pub fn typed<A: Archetype>(any: EntityAny) -> Entity<A> {
    match Entity::<A>::try_from(any) {
        Ok(e) => e,
        Err(_) => {
            checked_conversion_refuses("Entity<A>", crate::engine::catch(|| Entity::<A>::from_any(any)).is_err());
            Entity::<A>::from_any_unchecked(any)
        }
    }
}

pub fn typed_overwrite<A: Archetype>(any: EntityAny, seed: EntityAny) -> Entity<A> {
    let mut e: Entity<A> = Entity::<A>::try_from(seed).expect("sim: seed must be of archetype A");
    let r: &mut EntityAny = (&mut e).into();
    *r = any;
    e
}

pub fn dtyped<A: Archetype>(d: EntityDirectAny) -> EntityDirect<A> {
    match EntityDirect::<A>::try_from(d) {
        Ok(e) => e,
        Err(_) => {
            checked_conversion_refuses("EntityDirect<A>", crate::engine::catch(|| EntityDirect::<A>::from_any(d)).is_err());
            EntityDirect::<A>::from_any_unchecked(d)
        }
    }
}

crate::sx_enum! {
    #[derive(Clone, Copy, Debug, PartialEq, Eq)]
    pub enum RPath {
        WView,
        WBorrow,
        AView,
        ABorrow,
        ASlices,
        ABSlices,
        AAllSlices,
        Find,
        FindBorrow,
    }
}

pub const RPATHS: [RPath; 9] = [
    RPath::WView,
    RPath::WBorrow,
    RPath::AView,
    RPath::ABorrow,
    RPath::ASlices,
    RPath::ABSlices,
    RPath::AAllSlices,
    RPath::Find,
    RPath::FindBorrow,
];

crate::sx_enum! {
    #[derive(Clone, Copy, Debug, PartialEq, Eq)]
    pub enum SPath {
        Iter,
        IterMut,
        EntSlices,
        EntBSlices,
        AllSlices,
        EcsIter,
        EcsIterBorrow,
    }
}

pub const SPATHS: [SPath; 7] = [
    SPath::Iter,
    SPath::IterMut,
    SPath::EntSlices,
    SPath::EntBSlices,
    SPath::AllSlices,
    SPath::EcsIter,
    SPath::EcsIterBorrow,
];

pub struct ArchInfo {
    pub name: &'static str,
    pub id: u8,
    pub kinds: &'static [u8],
}

#[derive(Clone, Debug, Default)]
pub struct Dump {
    pub version: u32,
    pub len: usize,
    pub capacity: usize,
    pub free_head: u32,
    pub slots: Vec<(u32, u32)>,
    pub entities: Vec<(u32, u32)>,
}

pub type Row = (Bits, Vec<Obs>);

pub enum ColRef<'a> {
    R(&'a dyn CompDyn),
    W(&'a mut dyn CompDyn),
}

impl<'a> ColRef<'a> {
    pub fn obs(&self) -> Obs {
        match self {
            ColRef::R(c) => c.obs_dyn(),
            ColRef::W(c) => c.obs_dyn(),
        }
    }
    pub fn set(&mut self, p: u64) -> bool {
        match self {
            ColRef::R(_) => false,
            ColRef::W(c) => {
                c.set_dyn(p);
                true
            }
        }
    }
}

/// What a query closure hands to the simulator at each visit.
pub struct Visit<'a, 'b, W> {
    /// The world, when the query is a borrow-mode one (closure holds `&World`).
    pub world: Option<&'a W>,
    /// A different archetype of the same world, mutably, for the "sneaky" mut-mode sites.
    pub other: Option<&'a mut dyn ArchDyn>,
    pub ent: Bits,
    pub dir: Option<EntityDirectAny>,
    pub cols: &'a mut [ColRef<'b>],
    /// `MatchedArchetype::ARCHETYPE_ID` as the closure body sees it
    pub matched: u8,
}

crate::sx_enum! {
    #[derive(Clone, Copy, Debug, PartialEq, Eq)]
    pub enum Step {
        Continue,
        Break,
        ContinueDestroy,
        BreakDestroy,
    }
}

impl Step {
    pub fn iter(self) -> EcsStep {
        match self {
            Step::Continue | Step::ContinueDestroy => EcsStep::Continue,
            Step::Break | Step::BreakDestroy => EcsStep::Break,
        }
    }
    pub fn destroy(self) -> EcsStepDestroy {
        let r = match self {
            Step::Continue => EcsStepDestroy::Continue,
            Step::Break => EcsStepDestroy::Break,
            Step::ContinueDestroy => EcsStepDestroy::ContinueDestroy,
            Step::BreakDestroy => EcsStepDestroy::BreakDestroy,
        };
        if r.is_destroy() != matches!(self, Step::ContinueDestroy | Step::BreakDestroy) {
            crate::rt::violate("C07", "is-destroy-disagrees", format!("EcsStepDestroy::is_destroy() is {} for {:?}", r.is_destroy(), self));
        }
        r
    }
}

/// A query macro run from INSIDE a mut-mode closure on the unmatched ("other") archetype of a site.
#[derive(Clone, Copy, Debug)]
pub struct NestedReq {
    /// 0 = ecs_iter!, 1 = ecs_iter_destroy!, 2 = ecs_find!
    pub kind: u8,
    pub key: Option<EntityAny>,
}

pub trait VisitHook<W> {
    fn visit(&mut self, v: Visit<'_, '_, W>) -> Step;
    /// Asked by the site body after `visit` returned (the `other` borrow has ended): run a nested macro?
    fn nested_req(&mut self) -> Option<NestedReq> {
        None
    }
    fn nested_visit(&mut self, _ent: Bits, _dir: Option<EntityDirectAny>, _matched: u8) -> Step {
        Step::Continue
    }
    fn nested_done(&mut self, _found: Option<bool>) {}
}

impl<W, F: FnMut(Visit<'_, '_, W>) -> Step> VisitHook<W> for F {
    fn visit(&mut self, v: Visit<'_, '_, W>) -> Step {
        self(v)
    }
}

crate::sx_enum! {
    #[derive(Clone, Copy, Debug, PartialEq, Eq)]
    pub enum QMacro {
        Iter,
        IterBorrow,
        IterDestroy,
        Find,
        FindBorrow,
        // call forms of ecs_iter_destroy! whose closure returns `()` / `EcsStep` (chosen by the
        // executor from the plan; the logical macro stays IterDestroy)
        IterDestroyUnit,
        IterDestroyStep,
    }
}

pub struct SiteInfo {
    pub name: &'static str,
    /// indices (into `W::archs()`) of the archetypes the parameter list matches, in declaration order
    pub matches: &'static [usize],
    /// for each matched archetype, the column index bound to each component parameter
    pub cols: &'static [&'static [usize]],
    /// whether each component parameter is `&mut`
    pub muts: &'static [bool],
    pub has_dir: bool,
    /// index of an unmatched archetype handed to the closure (mut mode only)
    pub other: Option<usize>,
}

pub trait Guard {}
impl<T: ?Sized> Guard for T {}

/// Per-archetype adapter: everything that depends on the archetype's column list.
/// Implemented by `arch_spec!` in `worlds.rs`; all bodies are plain gecs API calls.
pub trait ArchSpec: Archetype + Clone + 'static
where
    Self: ArchetypeCanResolve<EntityAny> + ArchetypeCanResolve<EntityDirectAny>,
{
    const INFO: ArchInfo;
    fn make(p: &[u64]) -> Self::Components;
    fn obs_comps(c: &Self::Components) -> Vec<Obs>;
    fn obs_view(v: &Self::View<'_>) -> Row;
    fn view_index(v: &Self::View<'_>) -> usize;
    fn borrow_index(b: &Self::Borrow<'_>) -> usize;
    /// Observes a returned component struct after a round trip through its tuple conversions.
    fn comps_roundtrip(c: Self::Components) -> Vec<Obs>;
    fn set_view(v: &mut Self::View<'_>, col: usize, p: u64);
    fn obs_borrow(b: &Self::Borrow<'_>) -> Row;
    fn set_borrow(b: &Self::Borrow<'_>, col: usize, p: u64);
    fn obs_slices_at(&mut self, idx: usize) -> Row;
    fn set_slice_at(&mut self, idx: usize, col: usize, p: u64);
    fn obs_bslices_at(&self, idx: usize) -> Row;
    fn set_bslice_at(&self, idx: usize, col: usize, p: u64);
    fn obs_all_slices_at(&mut self, idx: usize) -> Row;
    fn set_all_slices_at(&mut self, idx: usize, col: usize, p: u64);
    fn scan_iter(&mut self) -> Vec<Row>;
    fn scan_iter_mut(&mut self, write: Option<(usize, usize, u64)>) -> Vec<Row>;
    fn scan_ent_slices(&mut self) -> Result<Vec<Row>, String>;
    fn scan_ent_bslices(&self) -> Result<Vec<Row>, String>;
    fn scan_all_slices(&mut self) -> Result<Vec<Row>, String>;
    fn hold_bslice<'a>(&'a self, col: usize, mutable: bool) -> Box<dyn Guard + 'a>;
    fn hold_bcomp<'a, 'b>(b: &'a Self::Borrow<'b>, col: usize, mutable: bool) -> (Obs, Box<dyn Guard + 'a>);
    fn dump(&self) -> Dump;
    fn preset(&mut self, slot_gen: u32, arch_ver: u32);
    fn create_lazy(&mut self, p: &[u64], fail: bool) -> Entity<Self>;
}

/// Object-safe archetype-level operations on `&mut A` (used by sneaky sites and the generic driver).
pub trait ArchDyn {
    fn info(&self) -> &'static ArchInfo;
    fn a_len(&self) -> usize;
    fn a_capacity(&self) -> usize;
    fn a_create(&mut self, p: &[u64]) -> Bits;
    fn a_create_within(&mut self, p: &[u64]) -> Result<Bits, Vec<Obs>>;
    fn a_destroy(&mut self, key: Key) -> Option<Vec<Obs>>;
    fn a_contains(&self, key: Key) -> bool;
}

pub fn a_key_any<A: ArchSpec, R>(
    key: Key,
    ft: impl FnOnce(Entity<A>) -> R,
    fa: impl FnOnce(EntityAny) -> R,
    fdt: impl FnOnce(EntityDirect<A>) -> R,
    fda: impl FnOnce(EntityDirectAny) -> R,
) -> R {
    match key {
        Key::T(a) => ft(typed::<A>(a)),
        Key::TO(a, s) => ft(typed_overwrite::<A>(a, s)),
        Key::A(a) => fa(a),
        Key::DT(d) => fdt(dtyped::<A>(d)),
        Key::DA(d) => fda(d),
    }
}

impl<A: ArchSpec> ArchDyn for A {
    fn info(&self) -> &'static ArchInfo {
        &A::INFO
    }
    fn a_len(&self) -> usize {
        self.len()
    }
    fn a_capacity(&self) -> usize {
        self.capacity()
    }
    fn a_create(&mut self, p: &[u64]) -> Bits {
        abits(self.create(A::make(p)).into_any())
    }
    fn a_create_within(&mut self, p: &[u64]) -> Result<Bits, Vec<Obs>> {
        match self.create_within_capacity(A::make(p)) {
            Ok(e) => Ok(abits(e.into_any())),
            Err(c) => Err(A::obs_comps(&c)),
        }
    }
    fn a_destroy(&mut self, key: Key) -> Option<Vec<Obs>> {
        let r = match key {
            Key::T(a) => self.destroy(typed::<A>(a)),
            Key::TO(a, s) => self.destroy(typed_overwrite::<A>(a, s)),
            Key::A(a) => self.destroy(a),
            Key::DT(d) => self.destroy(dtyped::<A>(d)),
            Key::DA(d) => self.destroy(d),
        };
        r.map(|c| {
            let o = A::obs_comps(&c);
            let o2 = A::comps_roundtrip(c);
            if o != o2 {
                crate::rt::violate("C02", "components-tuple-roundtrip", format!("destroyed components {:?} read {:?} after into_tuple/from", o, o2));
            }
            o
        })
    }
    fn a_contains(&self, key: Key) -> bool {
        match key {
            Key::T(a) => self.contains(typed::<A>(a)),
            Key::TO(a, s) => self.contains(typed_overwrite::<A>(a, s)),
            Key::A(a) => self.contains(a),
            Key::DT(d) => self.contains(dtyped::<A>(d)),
            Key::DA(d) => self.contains(d),
        }
    }
}

/// Result of a destroy call as seen through the API.
#[derive(Clone, Debug, PartialEq, Eq)]
pub enum Destroyed {
    Absent,
    /// `Option<()>` of the dynamic world-level path
    Unit,
    Comps(Vec<Obs>),
}

/// Per-world adapter implemented by `sim_world!`.
pub trait WorldSpec: World + Clone + 'static
where
    Self: WorldCanResolve<EntityAny> + WorldCanResolve<EntityDirectAny>,
{
    const NAME: &'static str;
    fn archs() -> &'static [&'static dyn ArchDrv<Self>];
    fn sites() -> &'static [SiteInfo];
    fn with_caps(caps: &[usize]) -> Self;
    /// `Default::default()` (must be equivalent to `new()` / all-zero capacities)
    fn fresh_default() -> Self;
    /// Full-column find pinned to archetype `ai` through `ecs_find!` / `ecs_find_borrow!`.
    fn find_full(&mut self, ai: usize, borrow: bool, key: Key, write: Option<(usize, u64)>, byref: bool) -> Option<(Row, Option<EntityDirectAny>)>;
    /// Full-column scan pinned to archetype `ai` through `ecs_iter!` / `ecs_iter_borrow!`.
    fn iter_full(&mut self, ai: usize, borrow: bool, write: Option<(usize, usize, u64)>) -> Vec<(Row, Option<EntityDirectAny>)>;
    /// `ecs_find!` / `ecs_find_borrow!` with a PARAMETERLESS closure (`|| true`) and a dynamic key:
    /// matches every archetype, the closure runs iff the entity is found.
    fn find_unit(&mut self, borrow: bool, key: Key) -> bool;
    /// Multi-archetype query sites, mut-mode macros.
    fn query_mut(&mut self, site: usize, mac: QMacro, key: Option<Key>, hook: &mut dyn VisitHook<Self>) -> Option<Step>;
    /// Multi-archetype query sites, borrow-mode macros.
    fn query_borrow(&self, site: usize, mac: QMacro, key: Option<Key>, hook: &mut dyn VisitHook<Self>) -> Option<Step>;
    /// Single-column runtime-borrowed accesses for the C11 matrix.
    fn acc_find_borrow(&self, ai: usize, col: usize, mutable: bool, key: Key, k: &mut dyn FnMut(Obs)) -> bool;
    fn acc_iter_borrow(&self, ai: usize, col: usize, mutable: bool, k: &mut dyn FnMut(Bits, Obs) -> bool);
    /// One borrow-mode query naming the same column twice (`|a: &C, b: &mut C|`): must panic
    /// whenever it actually reaches an entity. Returns None when the world has no such site.
    fn acc_double_use(&self, _iter: bool, _key: Option<Key>, _k: &mut dyn FnMut()) -> Option<(usize, usize)> {
        None
    }
    #[cfg(feature = "events")]
    fn w_created(&self) -> Result<Vec<Bits>, String>;
    #[cfg(feature = "events")]
    fn w_destroyed(&self) -> Result<Vec<Bits>, String>;
    #[cfg(feature = "events")]
    fn w_clear_events(&mut self);
}

/// Object-safe per-(world, archetype) driver.
pub trait ArchDrv<W>: Sync {
    fn info(&self) -> &'static ArchInfo;
    fn len(&self, w: &W) -> usize;
    fn is_empty(&self, w: &W) -> bool;
    fn capacity(&self, w: &W) -> usize;
    /// `Archetype::version()` (public; opaque but comparable).
    fn version(&self, w: &W) -> gecs::version::ArchetypeVersion;
    fn create(&self, w: &mut W, lvl: Lvl, p: &[u64]) -> Bits;
    fn create_lazy(&self, w: &mut W, p: &[u64], fail: bool) -> Bits;
    fn create_within(&self, w: &mut W, lvl: Lvl, p: &[u64]) -> Result<Bits, Vec<Obs>>;
    fn destroy(&self, w: &mut W, lvl: Lvl, key: Key) -> Destroyed;
    fn contains(&self, w: &W, lvl: Lvl, key: Key) -> bool;
    fn resolve(&self, w: &W, key: Key) -> Option<usize>;
    fn to_direct(&self, w: &W, lvl: Lvl, key: Key) -> Option<EntityDirectAny>;
    fn read(&self, w: &mut W, path: RPath, key: Key) -> Option<Row>;
    fn write(&self, w: &mut W, path: RPath, key: Key, col: usize, p: u64) -> bool;
    fn scan(&self, w: &mut W, path: SPath, write: Option<(usize, usize, u64)>) -> Result<Vec<Row>, String>;
    fn entities(&self, w: &W) -> Vec<Bits>;
    fn dump(&self, w: &W) -> Dump;
    fn preset(&self, w: &mut W, slot_gen: u32, arch_ver: u32);
    fn arch_dyn<'a>(&self, w: &'a mut W) -> &'a mut dyn ArchDyn;
    fn hold_bslice<'a>(&self, w: &'a W, col: usize, mutable: bool) -> Box<dyn Guard + 'a>;
    /// `borrow(key)` then `component(_mut)` on column `col`; runs `k` while the guard is held.
    fn with_bcomp(&self, w: &W, key: Key, col: usize, mutable: bool, k: &mut dyn FnMut(Obs)) -> bool;
    fn replace_with_clone(&self, w: &mut W);
    /// `dst.archetype.clone_from(&src.archetype)` (archetype-level `Clone::clone_from`).
    fn clone_from_other(&self, dst: &mut W, src: &W);
    /// `Archetype::clone()` through `&self`, result dropped at once.
    fn clone_and_drop(&self, w: &W);
    fn replace_with_capacity(&self, w: &mut W, cap: usize);
    #[cfg(feature = "events")]
    fn created(&self, w: &W) -> Vec<Bits>;
    #[cfg(feature = "events")]
    fn destroyed(&self, w: &W) -> Vec<Bits>;
    #[cfg(feature = "events")]
    fn clear_events(&self, w: &mut W);
}

pub struct Drv<A>(pub PhantomData<fn() -> A>);

impl<W, A> ArchDrv<W> for Drv<A>
where
    A: ArchSpec,
    W: WorldSpec + WorldHas<A> + WorldCanResolve<Entity<A>> + WorldCanResolve<EntityDirect<A>>,
{
    fn info(&self) -> &'static ArchInfo {
        &A::INFO
    }
    fn len(&self, w: &W) -> usize {
        w.archetype::<A>().len()
    }
    fn is_empty(&self, w: &W) -> bool {
        w.archetype::<A>().is_empty()
    }
    fn capacity(&self, w: &W) -> usize {
        w.archetype::<A>().capacity()
    }
    fn version(&self, w: &W) -> gecs::version::ArchetypeVersion {
        w.archetype::<A>().version()
    }
    fn create(&self, w: &mut W, lvl: Lvl, p: &[u64]) -> Bits {
        let e = match lvl {
            Lvl::World => w.create::<A>(A::make(p)),
            Lvl::Arch => w.archetype_mut::<A>().create(A::make(p)),
        };
        abits(e.into_any())
    }
    fn create_lazy(&self, w: &mut W, p: &[u64], fail: bool) -> Bits {
        abits(w.archetype_mut::<A>().create_lazy(p, fail).into_any())
    }
    fn create_within(&self, w: &mut W, lvl: Lvl, p: &[u64]) -> Result<Bits, Vec<Obs>> {
        let r = match lvl {
            Lvl::World => w.create_within_capacity::<A>(A::make(p)),
            Lvl::Arch => w.archetype_mut::<A>().create_within_capacity(A::make(p)),
        };
        match r {
            Ok(e) => Ok(abits(e.into_any())),
            Err(c) => Err(A::obs_comps(&c)),
        }
    }
    fn destroy(&self, w: &mut W, lvl: Lvl, key: Key) -> Destroyed {
        match lvl {
            Lvl::Arch => match w.archetype_mut::<A>().a_destroy(key) {
                None => Destroyed::Absent,
                Some(c) => Destroyed::Comps(c),
            },
            Lvl::World => {
                let typed_res = |r: Option<A::Components>| match r {
                    None => Destroyed::Absent,
                    Some(c) => Destroyed::Comps(A::obs_comps(&c)),
                };
                let unit_res = |r: Option<()>| match r {
                    None => Destroyed::Absent,
                    Some(()) => Destroyed::Unit,
                };
                match key {
                    Key::T(a) => typed_res(w.destroy(typed::<A>(a))),
                    Key::TO(a, s) => typed_res(w.destroy(typed_overwrite::<A>(a, s))),
                    Key::A(a) => unit_res(w.destroy(a)),
                    Key::DT(d) => typed_res(w.destroy(dtyped::<A>(d))),
                    Key::DA(d) => unit_res(w.destroy(d)),
                }
            }
        }
    }
    fn contains(&self, w: &W, lvl: Lvl, key: Key) -> bool {
        match lvl {
            Lvl::Arch => w.archetype::<A>().a_contains(key),
            Lvl::World => match key {
                Key::T(a) => w.contains(typed::<A>(a)),
                Key::TO(a, s) => w.contains(typed_overwrite::<A>(a, s)),
                Key::A(a) => w.contains(a),
                Key::DT(d) => w.contains(dtyped::<A>(d)),
                Key::DA(d) => w.contains(d),
            },
        }
    }
    fn resolve(&self, w: &W, key: Key) -> Option<usize> {
        let a = w.archetype::<A>();
        match key {
            Key::T(k) => a.resolve(typed::<A>(k)),
            Key::TO(k, s) => a.resolve(typed_overwrite::<A>(k, s)),
            Key::A(k) => a.resolve(k),
            Key::DT(d) => a.resolve(dtyped::<A>(d)),
            Key::DA(d) => a.resolve(d),
        }
    }
    fn to_direct(&self, w: &W, lvl: Lvl, key: Key) -> Option<EntityDirectAny> {
        match lvl {
            Lvl::Arch => {
                let a = w.archetype::<A>();
                match key {
                    Key::T(k) => a.to_direct(typed::<A>(k)).map(Into::into),
                    Key::TO(k, s) => a.to_direct(typed_overwrite::<A>(k, s)).map(Into::into),
                    Key::A(k) => a.to_direct(k),
                    Key::DT(d) => a.to_direct(dtyped::<A>(d)).map(Into::into),
                    Key::DA(d) => a.to_direct(d),
                }
            }
            Lvl::World => match key {
                Key::T(k) => w.to_direct(typed::<A>(k)).map(Into::into),
                Key::TO(k, s) => w.to_direct(typed_overwrite::<A>(k, s)).map(Into::into),
                Key::A(k) => w.to_direct(k),
                Key::DT(d) => w.to_direct(dtyped::<A>(d)).map(Into::into),
                Key::DA(d) => w.to_direct(d),
            },
        }
    }
    fn read(&self, w: &mut W, path: RPath, key: Key) -> Option<Row> {
        match path {
            RPath::WView => match key {
                Key::T(k) => w.view::<A, _>(typed::<A>(k)).map(|v| A::obs_view(&v)),
                Key::TO(k, s) => w.view::<A, _>(typed_overwrite::<A>(k, s)).map(|v| A::obs_view(&v)),
                Key::DT(d) => w.view::<A, _>(dtyped::<A>(d)).map(|v| A::obs_view(&v)),
                // World::view does not accept dynamic keys: fall back to the archetype-level path.
                Key::A(_) | Key::DA(_) => self.read(w, RPath::AView, key),
            },
            RPath::WBorrow => match key {
                Key::T(k) => w.borrow::<A, _>(typed::<A>(k)).map(|b| A::obs_borrow(&b)),
                Key::TO(k, s) => w.borrow::<A, _>(typed_overwrite::<A>(k, s)).map(|b| A::obs_borrow(&b)),
                Key::DT(d) => w.borrow::<A, _>(dtyped::<A>(d)).map(|b| A::obs_borrow(&b)),
                Key::A(_) | Key::DA(_) => self.read(w, RPath::ABorrow, key),
            },
            RPath::AView => {
                // View::index() is the dense index `resolve` reports
                let want_idx = self.resolve(w, key);
                let a = w.archetype_mut::<A>();
                let chk = |v: &A::View<'_>| {
                    if Some(A::view_index(v)) != want_idx {
                        crate::rt::violate("C02", "view-index", format!("View::index() = {} but resolve() = {:?}", A::view_index(v), want_idx));
                    }
                };
                match key {
                    Key::T(k) => a.view(typed::<A>(k)).map(|v| {
                        chk(&v);
                        A::obs_view(&v)
                    }),
                    Key::TO(k, s) => a.view(typed_overwrite::<A>(k, s)).map(|v| A::obs_view(&v)),
                    Key::A(k) => a.view(k).map(|v| A::obs_view(&v)),
                    Key::DT(d) => a.view(dtyped::<A>(d)).map(|v| A::obs_view(&v)),
                    Key::DA(d) => a.view(d).map(|v| A::obs_view(&v)),
                }
            }
            RPath::ABorrow => {
                let want_idx = self.resolve(w, key);
                let a = w.archetype::<A>();
                match key {
                    Key::T(k) => a.borrow(typed::<A>(k)).map(|b| {
                        if Some(A::borrow_index(&b)) != want_idx {
                            crate::rt::violate("C02", "borrow-index", format!("Borrow::index() = {} but resolve() = {:?}", A::borrow_index(&b), want_idx));
                        }
                        A::obs_borrow(&b)
                    }),
                    Key::TO(k, s) => a.borrow(typed_overwrite::<A>(k, s)).map(|b| A::obs_borrow(&b)),
                    Key::A(k) => a.borrow(k).map(|b| A::obs_borrow(&b)),
                    Key::DT(d) => a.borrow(dtyped::<A>(d)).map(|b| A::obs_borrow(&b)),
                    Key::DA(d) => a.borrow(d).map(|b| A::obs_borrow(&b)),
                }
            }
            RPath::ASlices => {
                let idx = self.resolve(w, key)?;
                Some(w.archetype_mut::<A>().obs_slices_at(idx))
            }
            RPath::ABSlices => {
                let idx = self.resolve(w, key)?;
                Some(w.archetype::<A>().obs_bslices_at(idx))
            }
            RPath::AAllSlices => {
                let idx = self.resolve(w, key)?;
                Some(w.archetype_mut::<A>().obs_all_slices_at(idx))
            }
            RPath::Find => w.find_full(self.index::<W>(), false, key, None, true).map(|r| r.0),
            RPath::FindBorrow => w.find_full(self.index::<W>(), true, key, None, true).map(|r| r.0),
        }
    }
    fn write(&self, w: &mut W, path: RPath, key: Key, col: usize, p: u64) -> bool {
        match path {
            RPath::WView | RPath::AView => {
                let a = w.archetype_mut::<A>();
                let v = match key {
                    Key::T(k) => a.view(typed::<A>(k)),
                    Key::TO(k, s) => a.view(typed_overwrite::<A>(k, s)),
                    Key::A(k) => a.view(k),
                    Key::DT(d) => a.view(dtyped::<A>(d)),
                    Key::DA(d) => a.view(d),
                };
                match v {
                    Some(mut v) => {
                        A::set_view(&mut v, col, p);
                        true
                    }
                    None => false,
                }
            }
            RPath::WBorrow | RPath::ABorrow => {
                let a = w.archetype::<A>();
                let b = match key {
                    Key::T(k) => a.borrow(typed::<A>(k)),
                    Key::TO(k, s) => a.borrow(typed_overwrite::<A>(k, s)),
                    Key::A(k) => a.borrow(k),
                    Key::DT(d) => a.borrow(dtyped::<A>(d)),
                    Key::DA(d) => a.borrow(d),
                };
                match b {
                    Some(b) => {
                        A::set_borrow(&b, col, p);
                        true
                    }
                    None => false,
                }
            }
            RPath::ASlices => match self.resolve(w, key) {
                Some(idx) => {
                    w.archetype_mut::<A>().set_slice_at(idx, col, p);
                    true
                }
                None => false,
            },
            RPath::ABSlices => match self.resolve(w, key) {
                Some(idx) => {
                    w.archetype::<A>().set_bslice_at(idx, col, p);
                    true
                }
                None => false,
            },
            RPath::AAllSlices => match self.resolve(w, key) {
                Some(idx) => {
                    w.archetype_mut::<A>().set_all_slices_at(idx, col, p);
                    true
                }
                None => false,
            },
            RPath::Find => w.find_full(self.index::<W>(), false, key, Some((col, p)), false).is_some(),
            RPath::FindBorrow => w.find_full(self.index::<W>(), true, key, Some((col, p)), false).is_some(),
        }
    }
    fn scan(&self, w: &mut W, path: SPath, write: Option<(usize, usize, u64)>) -> Result<Vec<Row>, String> {
        match path {
            SPath::Iter => Ok(w.archetype_mut::<A>().scan_iter()),
            SPath::IterMut => Ok(w.archetype_mut::<A>().scan_iter_mut(write)),
            SPath::EntSlices => w.archetype_mut::<A>().scan_ent_slices(),
            SPath::EntBSlices => w.archetype::<A>().scan_ent_bslices(),
            SPath::AllSlices => w.archetype_mut::<A>().scan_all_slices(),
            SPath::EcsIter => Ok(w.iter_full(self.index::<W>(), false, write).into_iter().map(|r| r.0).collect()),
            SPath::EcsIterBorrow => Ok(w.iter_full(self.index::<W>(), true, write).into_iter().map(|r| r.0).collect()),
        }
    }
    fn entities(&self, w: &W) -> Vec<Bits> {
        w.archetype::<A>().entities().iter().map(|e| abits(e.into_any())).collect()
    }
    fn dump(&self, w: &W) -> Dump {
        w.archetype::<A>().dump()
    }
    fn preset(&self, w: &mut W, slot_gen: u32, arch_ver: u32) {
        w.archetype_mut::<A>().preset(slot_gen, arch_ver)
    }
    fn arch_dyn<'a>(&self, w: &'a mut W) -> &'a mut dyn ArchDyn {
        w.archetype_mut::<A>()
    }
    fn hold_bslice<'a>(&self, w: &'a W, col: usize, mutable: bool) -> Box<dyn Guard + 'a> {
        w.archetype::<A>().hold_bslice(col, mutable)
    }
    fn with_bcomp(&self, w: &W, key: Key, col: usize, mutable: bool, k: &mut dyn FnMut(Obs)) -> bool {
        let a = w.archetype::<A>();
        let b = match key {
            Key::T(x) => a.borrow(typed::<A>(x)),
            Key::TO(x, s) => a.borrow(typed_overwrite::<A>(x, s)),
            Key::A(x) => a.borrow(x),
            Key::DT(d) => a.borrow(dtyped::<A>(d)),
            Key::DA(d) => a.borrow(d),
        };
        match b {
            Some(b) => {
                let (o, _g) = A::hold_bcomp(&b, col, mutable);
                k(o);
                true
            }
            None => false,
        }
    }
    fn replace_with_clone(&self, w: &mut W) {
        let c = w.archetype::<A>().clone();
        *w.archetype_mut::<A>() = c;
    }
    fn clone_from_other(&self, dst: &mut W, src: &W) {
        dst.archetype_mut::<A>().clone_from(src.archetype::<A>());
    }
    fn clone_and_drop(&self, w: &W) {
        let c = w.archetype::<A>().clone();
        drop(c);
    }
    fn replace_with_capacity(&self, w: &mut W, cap: usize) {
        *w.archetype_mut::<A>() = A::with_capacity(cap);
    }
    #[cfg(feature = "events")]
    fn created(&self, w: &W) -> Vec<Bits> {
        w.archetype::<A>().iter_created().map(|e| abits(e.into_any())).collect()
    }
    #[cfg(feature = "events")]
    fn destroyed(&self, w: &W) -> Vec<Bits> {
        w.archetype::<A>().iter_destroyed().map(|e| abits(e.into_any())).collect()
    }
    #[cfg(feature = "events")]
    fn clear_events(&self, w: &mut W) {
        w.archetype_mut::<A>().clear_events()
    }
}

impl<A: ArchSpec> Drv<A> {
    /// Index of this archetype in its world's driver table (looked up by archetype id).
    fn index<W: WorldSpec>(&self) -> usize
    where
        Drv<A>: ArchDrv<W>,
    {
        W::archs().iter().position(|d| d.info().id == A::INFO.id).expect("sim: archetype not in table")
    }
}
