//! Hook-free boundary runs on the real code (thorough tier): the 2^24 capacity limit and the
//! 2^32 generation / archetype-version limits reached with real operations.

use std::collections::BTreeMap;

use gecs::prelude::*;

use crate::comps::CompY;
use crate::engine::catch;
use crate::json::J;
use crate::worlds::wz::*;

const LIMIT: usize = 1 << 24;

pub fn fail(out: &mut Vec<(String, String, String)>, prop: &str, clause: &str, detail: String) {
    out.push((prop.to_string(), clause.to_string(), detail));
}

fn count_iter(w: &mut WZ) -> usize {
    let mut n = 0usize;
    ecs_iter!(w, |_e: &EntityAny| {
        n += 1;
    });
    n
}

/// Fill one archetype to 16,777,216 entities for real.
fn fill24(v: &mut Vec<(String, String, String)>, facts: &mut Vec<(String, i128)>) {
    match catch(|| WZ::with_capacity(WZCapacity { arch_z: LIMIT + 1 })) {
        Err(c) if c.msg.contains("capacity may not exceed") => {}
        Err(c) => fail(v, "C12", "with-capacity-limit", format!("with_capacity(2^24+1) panicked with '{}'", c.msg)),
        Ok(_) => fail(v, "C12", "with-capacity-limit", "with_capacity(2^24+1) did not panic".into()),
    }
    for huge in [u32::MAX as usize, u32::MAX as usize + 1, 1usize << 32, (1usize << 32) + 5, 1usize << 40, usize::MAX >> 1, usize::MAX] {
        match catch(|| WZ::with_capacity(WZCapacity { arch_z: huge })) {
            Err(c) if c.msg.contains("capacity may not exceed") => {}
            Err(c) => fail(v, "C12", "with-capacity-limit", format!("with_capacity({}) panicked with '{}'", huge, c.msg)),
            Ok(w) => fail(v, "C12", "with-capacity-limit", format!("with_capacity({}) did not panic (capacity() = {})", huge, w.arch_z.capacity())),
        }
    }
    match catch(|| WZ::with_capacity(WZCapacity { arch_z: LIMIT })) {
        Ok(w) => {
            if w.arch_z.capacity() < LIMIT {
                fail(v, "C12", "with-capacity", format!("with_capacity(2^24) gave {}", w.arch_z.capacity()));
            }
        }
        Err(c) => fail(v, "C12", "with-capacity-limit", format!("with_capacity(2^24) panicked: {}", c.msg)),
    }
    let mut w = WZ::with_capacity(WZCapacity { arch_z: 3 });
    let mut seen = vec![false; LIMIT];
    let mut cap = w.arch_z.capacity();
    let mut growths = 0i128;
    let mut sample: Vec<Entity<ArchZ>> = Vec::new();
    for i in 0..LIMIT {
        let e = match catch(|| w.arch_z.create((CompY {},))) {
            Ok(e) => e,
            Err(c) => {
                fail(v, "C12", "create-refused-below-limit", format!("create panicked with '{}' at len {} (capacity {}), below the limit of 16777216", c.msg, w.arch_z.len(), w.arch_z.capacity()));
                return;
            }
        };
        let (k, g) = e.into_any().raw();
        let slot = (k >> 8) as usize;
        if slot >= LIMIT || seen[slot] || g == 0 || (k & 0xFF) != 42 {
            fail(v, "C08", "handle-issued-twice", format!("creation {} returned key {:#x} generation {}", i, k, g));
            return;
        }
        seen[slot] = true;
        let c = w.arch_z.capacity();
        if c < cap || c < i + 1 {
            fail(v, "C12", "capacity-decreased", format!("capacity {} -> {} at len {}", cap, c, i + 1));
            return;
        }
        if c != cap {
            growths += 1;
            cap = c;
        }
        if i % 1_000_003 == 0 || i + 1 == LIMIT {
            sample.push(e);
        }
    }
    facts.push(("fill24_growths".into(), growths));
    if w.arch_z.len() != LIMIT || w.arch_z.capacity() != LIMIT {
        fail(v, "C12", "len-mismatch", format!("after 2^24 creations len {} capacity {}", w.arch_z.len(), w.arch_z.capacity()));
    }
    match catch(|| w.arch_z.create((CompY {},))) {
        Err(c) if c.msg.contains("capacity overflow") => {}
        Err(c) => fail(v, "C12", "create-beyond-limit", format!("create at the limit panicked with '{}'", c.msg)),
        Ok(_) => fail(v, "C12", "create-beyond-limit", "create at 2^24 entities succeeded".into()),
    }
    if w.arch_z.create_within_capacity((CompY {},)).is_ok() {
        fail(v, "C12", "within-capacity-succeeded-when-full", "create_within_capacity at 2^24 succeeded".into());
    }
    // the overflow panic must not have corrupted anything
    if w.arch_z.len() != LIMIT || count_iter(&mut w) != LIMIT {
        fail(v, "C10", "torn-state-after-panic", format!("after the capacity overflow panic len {} iterated {}", w.arch_z.len(), count_iter(&mut w)));
    }
    for e in &sample {
        if !w.contains(*e) || !w.contains(e.into_any()) {
            fail(v, "C01", "live-handle-rejected", format!("{:?} not found in the full archetype", e));
        }
    }
    let victim = sample[sample.len() / 2];
    if w.destroy(victim).is_none() || w.contains(victim) || w.arch_z.len() != LIMIT - 1 {
        fail(v, "C01", "live-handle-rejected-by-destroy", "destroy in the full archetype failed".into());
    }
    match w.arch_z.create_within_capacity((CompY {},)) {
        Ok(e) => {
            if e == victim || w.contains(victim) || !w.contains(e) {
                fail(v, "C08", "handle-issued-twice", format!("refill after destroy returned {:?} (victim {:?})", e, victim));
            }
        }
        Err(_) => fail(v, "C12", "within-capacity-refused-with-room", "freed position not reusable at the limit".into()),
    }
    if catch(|| w.arch_z.create((CompY {},))).is_ok() {
        fail(v, "C12", "create-beyond-limit", "second create at the limit succeeded".into());
    }
    facts.push(("fill24_entities".into(), LIMIT as i128));
    drop(w);
}

/// 2^32 - 1 real create/destroy cycles on one position: generations strictly increase, then the
/// documented panic (default) or wrap (wrapping_version) - with the world intact either way.
fn cycle32(v: &mut Vec<(String, String, String)>, facts: &mut Vec<(String, i128)>, two_slots: bool) {
    let wrapping = cfg!(feature = "wrapping_version");
    let mut w = WZ::with_capacity(WZCapacity { arch_z: 2 });
    let keeper = w.arch_z.create((CompY {},));
    // a direct handle issued before the first removal: must never be accepted again (default
    // configuration), in particular not if the archetype version silently came round
    let d0 = w.to_direct(keeper).unwrap();
    let mut expect_gen: u64 = 1;
    let mut cycles: u64 = 0;
    let mut removals: u64 = 0;
    loop {
        let e = w.arch_z.create((CompY {},));
        let (k, g) = e.into_any().raw();
        let e2 = if two_slots { Some(w.arch_z.create((CompY {},))) } else { None };
        let slot_ok = if two_slots { (k >> 8) == 1 || (k >> 8) == 2 } else { (k >> 8) == 1 };
        if (g as u64) < expect_gen || !slot_ok {
            if wrapping && (g as u64) < expect_gen && expect_gen > (u32::MAX as u64) - 255 {
                facts.push(("wrapped_to_generation_1".into(), 1));
                break;
            }
            fail(v, "C08", "handle-issued-twice", format!("cycle {}: handle key {:#x} generation {} (expected generation {})", cycles, k, g, expect_gen));
            return;
        }
        // the step size of the counters is policy: the panic is acceptable within one step of the maximum
        let at_slot_max = g as u64 >= u32::MAX as u64 - 255;
        let at_ver_max = removals + 256 >= u32::MAX as u64;
        let must_panic = g == u32::MAX;
        let r = catch(|| w.arch_z.destroy(e));
        match r {
            Ok(Some(_)) => {
                removals += 1;
                if !wrapping && must_panic {
                    fail(v, "C08", "no-overflow-panic", format!("destroy at generation {} / removal {} did not panic", g, removals));
                    return;
                }
            }
            Ok(None) => {
                fail(v, "C01", "live-handle-rejected-by-destroy", format!("cycle {}: destroy returned None", cycles));
                return;
            }
            Err(c) => {
                let expected = !wrapping && ((at_slot_max && c.msg.contains("slot version overflow")) || (at_ver_max && c.msg.contains("arch version overflow")));
                if !expected {
                    fail(v, "C10", "unexpected-panic", format!("cycle {} generation {}: destroy panicked with '{}'", cycles, g, c.msg));
                    return;
                }
                facts.push((if at_slot_max { "slot_overflow_panic_at_cycle" } else { "arch_overflow_panic_at_removal" }.into(), if at_slot_max { cycles as i128 } else { removals as i128 }));
                // the world must be untouched: both entities alive, iteration sees exactly them
                let want = if two_slots { 3 } else { 2 };
                let it = count_iter(&mut w);
                if w.arch_z.len() != want || it != want || !w.contains(e) || !w.contains(keeper) {
                    fail(v, "C10", "torn-state-after-panic", format!("after the overflow panic: len {} iterated {} contains(e) {} contains(keeper) {}", w.arch_z.len(), it, w.contains(e), w.contains(keeper)));
                    return;
                }
                // arbitrary further use
                let f = w.arch_z.create((CompY {},));
                if !w.contains(f) || w.arch_z.len() != want + 1 {
                    fail(v, "C10", "torn-state-after-panic", "world unusable after the overflow panic".into());
                }
                break;
            }
        }
        if let Some(e2) = e2 {
            if w.arch_z.destroy(e2).is_none() {
                fail(v, "C01", "live-handle-rejected-by-destroy", "second slot destroy returned None".into());
                return;
            }
            removals += 1;
        }
        if w.contains(e) {
            fail(v, "C01", "dead-handle-accepted", format!("cycle {}: destroyed handle still contained", cycles));
            return;
        }
        if !wrapping && (removals < 4 || removals + 4 >= u32::MAX as u64) && w.contains(d0) {
            fail(v, "C09", "dead-handle-accepted", format!("after {} removals the direct handle issued before the first removal is accepted again", removals));
            return;
        }
        cycles += 1;
        expect_gen = g as u64 + 1;
        if cycles % (1 << 28) == 0 && (!w.contains(keeper) || w.arch_z.len() != 1) {
            fail(v, "C01", "live-handle-rejected", "keeper entity lost".into());
            return;
        }
        if cycles > (1u64 << 32) + 8 {
            fail(v, "C08", "no-overflow-panic", "ran past 2^32 cycles".into());
            return;
        }
    }
    facts.push(("cycles".into(), cycles as i128));
    facts.push(("removals".into(), removals as i128));
    if !w.contains(keeper) {
        fail(v, "C01", "live-handle-rejected", "keeper entity lost at the end".into());
    }
    drop(w);
}

pub fn cmd_boundary(m: &BTreeMap<String, String>) -> i32 {
    let kind = m.get("kind").cloned().unwrap_or_else(|| "fill24".into());
    let t0 = std::time::Instant::now();
    let mut v = Vec::new();
    let mut facts = Vec::new();
    match kind.as_str() {
        "fill24" => fill24(&mut v, &mut facts),
        "cycle32" => cycle32(&mut v, &mut facts, false),
        "cycle32arch" => cycle32(&mut v, &mut facts, true),
        "large" => crate::boundary_large::large(&mut v, &mut facts),
        "epochs" => crate::boundary_epochs::epochs(&mut v, &mut facts),
        _ => {
            eprintln!("unknown boundary kind");
            return 2;
        }
    }
    let out = J::obj(vec![
        ("kind", J::s(kind.clone())),
        ("wall_s", J::Float(t0.elapsed().as_secs_f64())),
        ("facts", J::Obj(facts.into_iter().map(|(k, x)| (k, J::Int(x))).collect())),
        ("violations", J::Arr(v.iter().map(|(p, c, d)| J::obj(vec![("property", J::s(p.clone())), ("clause", J::s(c.clone())), ("detail", J::s(d.clone()))])).collect())),
        ("wrapping_version", J::Bool(cfg!(feature = "wrapping_version"))),
        ("debug_assertions", J::Bool(cfg!(debug_assertions))),
    ]);
    println!("{}", out.to_string());
    if v.is_empty() {
        0
    } else {
        1
    }
}
