//! Top-level operations: each calls real gecs, predicts with the model, compares.

use gecs::prelude::EntityDirectAny;

use crate::comps::{payload_mask, Obs};
use crate::engine::*;
use crate::model::*;
use crate::ops::*;
use crate::rt;
use crate::spec::*;

impl<W: WorldSpec> Engine<W> {
    pub fn cur_alive(&self) -> bool {
        self.cur < self.ws.len() && self.ws[self.cur].is_some()
    }

    /// Handles a handle returned by a create path: uniqueness (C08), archetype byte, book, model.
    pub fn on_created(&mut self, wid: usize, ai: usize, bits: Bits, cols: Vec<Obs>, cap_before: usize, len_before: usize, within: bool) {
        let d = W::archs()[ai];
        let id = d.info().id;
        if (bits >> 32) as u8 != id || (bits as u32) == 0 {
            vio("C08", "created-handle-malformed", format!("create in {} returned handle {:#x} (archetype byte / zero generation)", d.info().name, bits));
        }
        let m = &mut self.ms[wid];
        if m.issued.contains(&bits) {
            let slot = (bits >> 40) as u32;
            if self.cfg.wrapping && m.wrapped.contains(&(ai, slot)) {
                self.stats.inc("c08_reissue_after_wrap");
            } else {
                vio("C08", "handle-issued-twice", format!("create in {} returned {:#x}, which an earlier create of this world already returned", d.info().name, bits));
            }
        }
        if m.ents.contains_key(&bits) {
            vio("C08", "handle-of-live-entity-reissued", format!("create returned {:#x} which designates a live entity", bits));
            return;
        }
        m.insert(bits, ai, cols);
        let cap_after = d.capacity(self.ws[wid].as_ref().unwrap());
        if cap_after < cap_before {
            vio("C12", "capacity-decreased", format!("{}: capacity {} -> {} on create", d.info().name, cap_before, cap_after));
        }
        if len_before < cap_before && cap_after != cap_before {
            vio("C12", "grew-below-capacity", format!("{}: capacity changed {} -> {} although len {} < capacity", d.info().name, cap_before, cap_after, len_before));
        }
        if within && cap_after != cap_before {
            vio("C12", "within-capacity-changed-capacity", format!("{}: create_within_capacity changed capacity {} -> {}", d.info().name, cap_before, cap_after));
        }
        if cap_after > cap_before {
            self.stats.inc("growth");
            if m.archs[ai].removals > 0 {
                self.stats.inc("growth_after_churn");
            }
        }
        m.archs[ai].cap = cap_after;
        if !self.book_skip {
            self.add_ind(bits, wid);
        }
        rt::h(&[bits, cap_after as u64]);
    }

    pub fn op_create(&mut self, a: u8, lvl: Lvl, p: u64, within: bool, lazy: Option<bool>) {
        if !self.cur_alive() {
            return;
        }
        let wid = self.cur;
        let ai = a as usize % W::archs().len();
        let d = W::archs()[ai];
        let (len_b, cap_b) = {
            let w = self.ws[wid].as_ref().unwrap();
            (d.len(w), d.capacity(w))
        };
        let payloads = payloads_for::<W>(ai, p);
        let exp_cols = expect_cols::<W>(ai, &payloads);
        let w = self.ws[wid].as_mut().unwrap();
        if within {
            match catch(|| d.create_within(w, lvl, &payloads)) {
                Ok(Ok(bits)) => {
                    if len_b >= cap_b {
                        vio("C12", "within-capacity-succeeded-when-full", format!("{}: create_within_capacity succeeded with len {} capacity {}", d.info().name, len_b, cap_b));
                    }
                    self.stats.inc("create_within_ok");
                    self.on_created(wid, ai, bits, exp_cols, cap_b, len_b, true);
                }
                Ok(Err(ret)) => {
                    if len_b < cap_b {
                        vio("C12", "within-capacity-refused-with-room", format!("{}: create_within_capacity failed with len {} < capacity {}", d.info().name, len_b, cap_b));
                    }
                    if ret != exp_cols {
                        vio("C12", "within-capacity-returned-other-values", format!("{}: failed create_within_capacity returned {:?}, passed {:?}", d.info().name, ret, exp_cols));
                    }
                    self.stats.inc("create_within_full");
                    rt::h(&[0xF011]);
                }
                Err(c) => vio("C10", "unexpected-panic", format!("create_within_capacity panicked: {}", c.msg)),
            }
            return;
        }
        if lazy.is_some() {
            self.yields.push((self.step, 4, 1));
        }
        let r = match lazy {
            Some(fail) => catch(|| d.create_lazy(w, &payloads, fail)),
            None => catch(|| d.create(w, lvl, &payloads)),
        };
        match r {
            Ok(bits) => {
                if len_b >= MAX_CAP {
                    vio("C12", "create-beyond-limit", format!("{}: create succeeded with {} entities", d.info().name, len_b));
                }
                self.on_created(wid, ai, bits, exp_cols, cap_b, len_b, false);
            }
            Err(c) => {
                if c.injected == Some(rt::Injected::Into) {
                    self.stats.inc("F10_into_panic");
                    self.faulted = true;
                    // nothing may have changed
                } else if c.msg.contains("capacity overflow") && len_b >= MAX_CAP {
                    self.stats.inc("F4_capacity_overflow");
                } else {
                    vio("C10", "unexpected-panic", format!("create in {} (len {}, capacity {}) panicked: {}", d.info().name, len_b, cap_b, c.msg));
                }
            }
        }
    }

    /// Target archetype of an operation on book entry `ei`: its own archetype, or (forging) another.
    pub fn target_arch(&self, ei: usize, cross: u8) -> usize {
        let n = W::archs().len();
        let own = arch_of_byte::<W>(self.book[ei].arch_byte);
        match own {
            Some(o) => (o + cross as usize) % n,
            None => cross as usize % n,
        }
    }

    /// For a typed key whose archetype byte is not `ta`'s: which entity the real lookup lands on
    /// (asked through `resolve`, before the operation itself runs).
    pub fn cross_reached(&self, wid: usize, ta: usize, key: Key) -> Option<Bits> {
        let d = W::archs()[ta];
        let w = self.ws[wid].as_ref()?;
        match catch(|| d.resolve(w, key)) {
            Ok(Some(idx)) => d.entities(w).get(idx).copied(),
            _ => None,
        }
    }

    pub fn op_destroy(&mut self, h: Sel, typed: bool, lvl: Lvl, cross: u8, over: bool, dp: Option<u32>) {
        if !self.cur_alive() {
            return;
        }
        let wid = self.cur;
        let ei = match self.select(h) {
            Some(i) => i,
            None => return,
        };
        self.touched.push(ei);
        // a dynamic key at world level is dispatched by its own archetype byte
        let cross = if lvl == Lvl::World && !typed { 0 } else { cross };
        let ta = self.target_arch(ei, cross);
        let key = self.key_for(ei, typed, over, ta);
        let exp = self.expect(wid, ei, key, ta);
        let d = W::archs()[ta];
        // documented overflow panics
        let overflow_expected = !self.cfg.wrapping
            && match exp.target {
                Some(t) if exp.acc != Tri::No => near_max(t as u32 as u64) || near_max(self.ms[wid].archs[ta].ver),
                _ => false,
            };
        let dynamic_world = lvl == Lvl::World && !typed;
        let pre_reached = if exp.cross_typed { self.cross_reached(wid, ta, key) } else { None };
        rt::arm(None, if dynamic_world { dp } else { None }, None, false);
        let w = self.ws[wid].as_mut().unwrap();
        let r = catch(|| d.destroy(w, lvl, key));
        rt::disarm();
        rt::h(&[0xDE57, key.tag(), key.bits(), ta as u64]);
        if dynamic_world {
            self.yields.push((self.step, 3, d.info().kinds.len() as u32));
        }
        match r {
            Ok(Destroyed::Absent) => {
                if exp.acc == Tri::Yes {
                    let prop = if self.book[ei].is_direct() { "C09" } else { "C01" };
                    vio(prop, "live-handle-rejected-by-destroy", format!("destroy({:?}) on {} returned None but the model says the entity is alive", key, d.info().name));
                }
                self.stats.inc("destroy_absent");
            }
            Ok(res) => {
                // something was destroyed: which entity?
                if exp.acc == Tri::No {
                    if exp.cross_typed {
                        if let Some(rb) = pre_reached {
                            self.cross_typed_match(wid, ei, ta, rb, "destroy");
                            self.ms[wid].remove(rb, self.cfg.wrapping);
                            return;
                        }
                    }
                    let prop = if self.book[ei].is_direct() { "C09" } else if self.book[ei].forged || self.book[ei].native_in(wid).is_none() { "C03" } else { "C01" };
                    vio(prop, "dead-handle-accepted-by-destroy", format!("destroy({:?}) on {} destroyed something ({:?}) but the model says the handle designates no live entity", key, d.info().name, res));
                    return;
                }
                let t = exp.target.unwrap();
                if let Destroyed::Comps(obs) = &res {
                    let want = &self.ms[wid].ents[&t].cols;
                    if obs != want {
                        let prop = if self.book[ei].is_direct() { "C09" } else { "C02" };
                        vio(prop, "destroy-returned-other-values", format!("destroy({:?}) returned {:?}, the entity's values are {:?}", key, obs, want));
                        return;
                    }
                }
                if dynamic_world {
                    self.stats.inc("destroy_dynamic_world");
                }
                if self.book[ei].is_direct() {
                    self.stats.inc("destroy_by_direct");
                }
                let pos_class = self.removal_position_class(wid, ta, t);
                self.stats.inc(pos_class);
                self.ms[wid].remove(t, self.cfg.wrapping);
                self.stats.inc("destroy_ok");
            }
            Err(c) => {
                if c.injected == Some(rt::Injected::Drop) {
                    // F3 inside the dynamic world-level path: the tuple is dropped by generated
                    // code after the entity is gone, so the destroy took effect.
                    self.stats.inc("F3_drop_panic_in_destroy");
                    self.faulted = true;
                    if let (Tri::Yes | Tri::Maybe, Some(t)) = (exp.acc, exp.target) {
                        self.settle_after_panic(wid, ta, t, "destroy");
                    }
                } else if is_overflow_panic(&c.msg) {
                    if overflow_expected {
                        self.stats.inc("F5_version_overflow_in_destroy");
                        self.faulted = true;
                        self.settle_after_panic(wid, ta, exp.target.unwrap(), "destroy");
                    } else {
                        vio("C08", "overflow-panic-without-overflow", format!("destroy({:?}) panicked with '{}' although no counter is at its maximum", key, c.msg));
                    }
                } else if exp.panic_ok && is_clean_forged_panic(&c.msg) {
                    self.stats.inc("forged_clean_panic");
                } else {
                    vio("C10", "unexpected-panic", format!("destroy({:?}) on {} panicked: {}", key, d.info().name, c.msg));
                }
            }
        }
    }

    /// After a panic unwound out of an operation that was destroying `t`: the world must be in
    /// exactly one of the two states "did not happen" / "happened completely". Picks the branch by
    /// asking the real world, then lets the audit verify it in full.
    pub fn settle_after_panic(&mut self, wid: usize, ta: usize, t: Bits, what: &str) {
        let d = W::archs()[ta];
        let w = self.ws[wid].as_ref().unwrap();
        let still = any_from_bits(t).map_or(false, |any| catch(|| d.contains(w, Lvl::Arch, Key::T(any))).unwrap_or(false));
        let len = d.len(w);
        let mlen = self.ms[wid].archs[ta].len;
        if still && len == mlen {
            self.stats.inc("panic_branch_absent");
        } else if !still && len + 1 == mlen {
            self.stats.inc("panic_branch_took_effect");
            self.ms[wid].remove(t, self.cfg.wrapping);
        } else {
            vio(
                "C10",
                "torn-state-after-panic",
                format!("after a panic unwound out of {} of {:#x} in {}: contains={} len()={} (model len before {}): neither fully present nor fully absent", what, t, d.info().name, still, len, mlen),
            );
        }
    }

    fn removal_position_class(&self, wid: usize, ta: usize, t: Bits) -> &'static str {
        // position by observation of entities() before the removal happened is gone; classify by
        // the model's len only (first/last cannot be known without dense order), so use len.
        let _ = t;
        match self.ms[wid].archs[ta].len {
            1 => "removal_of_only_entity",
            _ => "removal_among_many",
        }
    }

    pub fn op_write(&mut self, h: Sel, typed: bool, path: RPath, col: u8, p: u64) {
        if !self.cur_alive() {
            return;
        }
        let wid = self.cur;
        let ei = match self.select(h) {
            Some(i) => i,
            None => return,
        };
        self.touched.push(ei);
        let ta = self.target_arch(ei, 0);
        let key = self.key_for(ei, typed, false, ta);
        let exp = self.expect(wid, ei, key, ta);
        let d = W::archs()[ta];
        let kinds = d.info().kinds;
        let c = col as usize % kinds.len();
        let pv = p & payload_mask(kinds[c]);
        let pre_reached = if exp.cross_typed { self.cross_reached(wid, ta, key) } else { None };
        let w = self.ws[wid].as_mut().unwrap();
        let r = catch(|| d.write(w, path, key, c, pv));
        rt::h(&[0x3417E, key.tag(), key.bits(), c as u64, pv]);
        match r {
            Ok(false) => {
                if exp.acc == Tri::Yes {
                    let prop = if self.book[ei].is_direct() { "C09" } else { "C01" };
                    vio(prop, "live-handle-rejected", format!("write via {:?} with {:?}: rejected although the entity is alive", path, key));
                }
            }
            Ok(true) => match (exp.acc, exp.target) {
                (Tri::No, _) if exp.cross_typed && pre_reached.is_some() => {
                    let rb = pre_reached.unwrap();
                    self.cross_typed_match(wid, ei, ta, rb, "write");
                    if let Some(r) = self.ms[wid].ents.get_mut(&rb) {
                        r.cols[c].payload = pv;
                    }
                }
                (Tri::No, _) | (_, None) => {
                    let prop = if self.book[ei].is_direct() { "C09" } else if self.book[ei].forged || self.book[ei].native_in(wid).is_none() { "C03" } else { "C01" };
                    vio(prop, "dead-handle-accepted", format!("write via {:?} with {:?} was accepted although the model says the handle designates no live entity", path, key));
                }
                (_, Some(t)) => {
                    self.ms[wid].ents.get_mut(&t).unwrap().cols[c].payload = pv;
                    self.stats.inc("write_ok");
                    self.stats.inc(match path {
                        RPath::WView | RPath::AView => "write_view",
                        RPath::WBorrow | RPath::ABorrow => "write_borrow",
                        RPath::ASlices => "write_slice",
                        RPath::ABSlices => "write_bslice",
                        RPath::AAllSlices => "write_allslices",
                        RPath::Find => "write_find",
                        RPath::FindBorrow => "write_find_borrow",
                    });
                }
            },
            Err(cg) => {
                if exp.panic_ok && is_clean_forged_panic(&cg.msg) {
                    self.stats.inc("forged_clean_panic");
                } else {
                    vio("C10", "unexpected-panic", format!("write via {:?} with {:?} panicked: {}", path, key, cg.msg));
                }
            }
        }
    }

    pub fn op_mint(&mut self, h: Sel, typed: bool, lvl: Lvl) {
        if !self.cur_alive() {
            return;
        }
        let wid = self.cur;
        let ei = match self.select(h) {
            Some(i) => i,
            None => return,
        };
        self.touched.push(ei);
        let ta = self.target_arch(ei, 0);
        let key = self.key_for(ei, typed, false, ta);
        let exp = self.expect(wid, ei, key, ta);
        let d = W::archs()[ta];
        let pre_reached = if exp.cross_typed { self.cross_reached(wid, ta, key) } else { None };
        let w = self.ws[wid].as_ref().unwrap();
        let r = catch(|| d.to_direct(w, lvl, key));
        rt::h(&[0x3147, key.tag(), key.bits()]);
        match r {
            Ok(None) => {
                if exp.acc == Tri::Yes {
                    let prop = if self.book[ei].is_direct() { "C09" } else { "C01" };
                    vio(prop, "live-handle-rejected", format!("to_direct({:?}) returned None although the entity is alive", key));
                }
            }
            Ok(Some(_)) if exp.cross_typed && exp.acc == Tri::No && pre_reached.is_some() => {
                self.cross_typed_match(wid, ei, ta, pre_reached.unwrap(), "to_direct");
            }
            Ok(Some(dd)) => self.check_minted(wid, ei, ta, key, exp, dd),
            Err(c) => {
                if exp.panic_ok && is_clean_forged_panic(&c.msg) {
                    self.stats.inc("forged_clean_panic");
                } else {
                    vio("C10", "unexpected-panic", format!("to_direct({:?}) panicked: {}", key, c.msg));
                }
            }
        }
    }

    /// A direct handle was just issued by `to_direct`: it must be accepted right now and designate
    /// the entity it was issued for (C09), then goes into the book.
    pub fn check_minted(&mut self, wid: usize, ei: usize, ta: usize, key: Key, exp: Exp, dd: EntityDirectAny) {
        let d = W::archs()[ta];
        if exp.acc == Tri::No || exp.target.is_none() {
            let e = &self.book[ei];
            if e.is_direct() {
                vio("C09", "to_direct-accepts-stale-direct", format!("to_direct({:?}) returned Some although the model says this direct handle must be rejected", key));
            } else {
                let prop = if e.forged || e.native_in(wid).is_none() { "C03" } else { "C01" };
                vio(prop, "dead-handle-accepted", format!("to_direct({:?}) returned Some although the model says the handle designates no live entity", key));
            }
            return;
        }
        let t = exp.target.unwrap();
        let w = self.ws[wid].as_mut().unwrap();
        match catch(|| d.read(w, RPath::AView, Key::DA(dd))) {
            Ok(Some((b, obs))) => {
                let want = &self.ms[wid].ents[&t].cols;
                if b != t || obs != *want {
                    vio("C09", "fresh-direct-designates-other", format!("to_direct({:?}) = {:#x} reaches entity {:#x} {:?}, expected {:#x} {:?}", key, dbits(dd), b, obs, t, want));
                    return;
                }
            }
            Ok(None) => {
                vio("C09", "fresh-direct-rejected", format!("to_direct({:?}) = {:#x} is rejected at the moment it is issued", key, dbits(dd)));
                return;
            }
            Err(c) => {
                vio("C10", "unexpected-panic", format!("lookup of freshly issued direct handle panicked: {}", c.msg));
                return;
            }
        }
        let am = &self.ms[wid].archs[ta];
        let (r, c, v) = (am.removals, am.creations, am.ver);
        self.add_dir(dd, t, wid, r, c, v);
        self.stats.inc("mint_direct");
    }

    pub fn op_scan(&mut self, a: u8, path: SPath, wr: Option<(u32, u8, u64)>) {
        if !self.cur_alive() {
            return;
        }
        let wid = self.cur;
        let ai = a as usize % W::archs().len();
        self.scan_check(wid, ai, path, wr);
    }

    /// One full pass over archetype `ai` through `path`; every live entity exactly once with its
    /// own handle and values (C06/C02), optional write through the mutable forms.
    pub fn scan_check(&mut self, wid: usize, ai: usize, path: SPath, wr: Option<(u32, u8, u64)>) {
        let d = W::archs()[ai];
        let kinds = d.info().kinds;
        let mlen = self.ms[wid].archs[ai].len;
        let write = match (wr, path) {
            (Some((idx, col, p)), SPath::IterMut | SPath::EcsIter | SPath::EcsIterBorrow) if mlen > 0 => {
                let c = col as usize % kinds.len();
                Some((idx as usize % mlen, c, p & payload_mask(kinds[c])))
            }
            _ => None,
        };
        let w = self.ws[wid].as_mut().unwrap();
        let rows = match catch(|| d.scan(w, path, write)) {
            Ok(Ok(r)) => r,
            Ok(Err(e)) => {
                vio("C06", "slice-length-mismatch", format!("{} via {:?}: {}", d.info().name, path, e));
                return;
            }
            Err(c) => {
                vio("C10", "unexpected-panic", format!("scan of {} via {:?} panicked: {}", d.info().name, path, c.msg));
                return;
            }
        };
        if let Some((idx, c, pv)) = write {
            if let Some((b, _)) = rows.get(idx) {
                if let Some(r) = self.ms[wid].ents.get_mut(b) {
                    r.cols[c].payload = pv;
                    self.stats.inc("write_ok");
                    self.stats.inc(match path {
                        SPath::IterMut => "write_iter_mut",
                        SPath::EcsIter => "write_ecs_iter",
                        _ => "write_ecs_iter_borrow",
                    });
                }
            }
        }
        if rows.len() != mlen {
            vio("C06", "item-count", format!("{} via {:?} yielded {} items, len() should be {}", d.info().name, path, rows.len(), mlen));
            return;
        }
        let mut seen = std::collections::BTreeSet::new();
        let mut hh: u64 = 0;
        for (b, obs) in &rows {
            if !seen.insert(*b) {
                vio("C06", "visited-twice", format!("{} via {:?} presented entity {:#x} twice", d.info().name, path, b));
                return;
            }
            match self.ms[wid].ents.get(b) {
                Some(r) if r.arch == ai => {
                    if r.cols != *obs {
                        vio("C02", "scan-values-mismatch", format!("{} via {:?}: entity {:#x} presented with {:?}, its values are {:?}", d.info().name, path, b, obs, r.cols));
                        return;
                    }
                }
                _ => {
                    vio("C06", "presented-non-live", format!("{} via {:?} presented {:#x}, which is not a live entity of this archetype", d.info().name, path, b));
                    return;
                }
            }
            hh = mix(hh, *b);
        }
        rt::h(&[0x5CA4, ai as u64, rows.len() as u64, hh]);
        self.stats.inc("scan_ok");
        if mlen == 0 {
            self.stats.inc("scan_empty");
        }
        if mlen > 0 && mlen == self.ms[wid].archs[ai].cap {
            self.stats.inc("scan_at_exact_capacity");
        }
    }
}
