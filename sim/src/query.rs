//! In-flight operations: the five query macros with a scheduler at every closure call, and the
//! runtime-borrow access matrix (C11).

use std::collections::BTreeSet;

use gecs::prelude::EntityDirectAny;

use crate::comps::{payload_mask, Obs};
use crate::engine::*;
use crate::model::*;
use crate::ops::*;
use crate::rt::{self, Injected};
use crate::spec::*;

pub struct VisitRec {
    pub ent: Bits,
    pub arch: usize,
    pub dir: Option<EntityDirectAny>,
    pub removals: u64,
    pub creations: u64,
    pub ver: u64,
}

pub struct QState<'a> {
    pub m: &'a mut Model,
    pub stats: &'a mut Stats,
    pub site: &'static SiteInfo,
    pub mac: QMacro,
    pub plan: &'a [VisitAct],
    pub k: usize,
    pub visits: Vec<VisitRec>,
    pub seen: BTreeSet<Bits>,
    pub pending_destroy: Option<Bits>,
    pub created_other: Vec<Bits>,
    pub wrapping: bool,
    pub broke_at: Option<usize>,
    pub calls_after_break: usize,
    pub wid: usize,
    pub failed: bool,
    pub inter: &'a mut BTreeSet<u64>,
    /// a nested macro requested by the visit that just returned (kind, n, mask)
    pub want_nested: Option<(u8, u32, u32, u32)>,
    /// (outer visit index, visits of the nested macro run there): yield points for the C10 family
    pub nested_counts: Vec<(usize, usize)>,
    pub nested: Option<NestedRun>,
    pub nested_visits: Vec<VisitRec>,
    pub si: usize,
    pub want_alt: Option<(u32, u32)>,
}

/// One query macro running on the unmatched archetype from inside the closure of the query in flight.
pub struct NestedRun {
    pub kind: u8,
    pub oi: usize,
    pub n: u32,
    pub mask: u32,
    pub start_live: BTreeSet<Bits>,
    pub seen: BTreeSet<Bits>,
    pub pending: Option<Bits>,
    pub k: usize,
    pub broke_at: Option<usize>,
    pub key: Option<Bits>,
    pub panic_at: Option<usize>,
}

/// The hook handed to the site bodies: visits plus the nested-macro protocol.
pub struct QHook<'q, 'a, W>(pub &'q mut QState<'a>, pub Option<(&'q mut W, &'q mut Model)>);

impl<'q, 'a, W: WorldSpec> VisitHook<W> for QHook<'q, 'a, W> {
    fn visit(&mut self, v: Visit<'_, '_, W>) -> Step {
        let st = self.0.on_visit::<W>(v);
        if let Some((n, mask)) = self.0.want_alt.take() {
            if let Some((aw, am)) = self.1.as_mut() {
                if !self.0.failed && !rt::has_violation() {
                    run_alt_query::<W>(aw, am, self.0.si, n, mask, self.0.wrapping, self.0.stats);
                }
            }
        }
        st
    }
    fn nested_req(&mut self) -> Option<NestedReq> {
        self.0.nested_req::<W>()
    }
    fn nested_visit(&mut self, ent: Bits, dir: Option<EntityDirectAny>, matched: u8) -> Step {
        self.0.nested_visit::<W>(ent, dir, matched)
    }
    fn nested_done(&mut self, found: Option<bool>) {
        self.0.nested_done::<W>(found)
    }
}

fn kinds_of<W: WorldSpec>(ai: usize) -> &'static [u8] {
    W::archs()[ai].info().kinds
}

impl<'a> QState<'a> {
    pub fn finalize_pending(&mut self) {
        if let Some(b) = self.pending_destroy.take() {
            self.m.remove(b, self.wrapping);
            self.stats.inc("iter_destroy_destroyed");
        }
    }

    fn nested_req<W: WorldSpec>(&mut self) -> Option<NestedReq> {
        let (kind, n, mask, pk) = self.want_nested.take()?;
        let oi = self.site.other?;
        if self.failed || rt::has_violation() {
            return None;
        }
        let kind = kind % 3;
        let live = self.m.live_of(oi);
        let start_live: BTreeSet<Bits> = live.iter().copied().collect();
        let key = if kind == 2 {
            if live.is_empty() {
                return None;
            }
            Some(live[n as usize % live.len()])
        } else {
            None
        };
        // F1 inside the nested macro: the panic unwinds through two in-flight queries
        let panic_at = if pk > 0 { Some(pk as usize - 1) } else { None };
        self.nested = Some(NestedRun { kind, oi, n, mask, start_live, seen: BTreeSet::new(), pending: None, k: 0, broke_at: None, key, panic_at });
        self.stats.inc(match kind {
            0 => "inner_nested_ecs_iter",
            1 => "inner_nested_ecs_iter_destroy",
            _ => "inner_nested_ecs_find",
        });
        Some(NestedReq { kind, key: key.and_then(any_from_bits) })
    }

    fn nested_visit<W: WorldSpec>(&mut self, ent: Bits, dir: Option<EntityDirectAny>, matched: u8) -> Step {
        let wrapping = self.wrapping;
        let site = self.site.name;
        let run = match self.nested.as_mut() {
            Some(r) => r,
            None => return Step::Break,
        };
        if let Some(b) = run.pending.take() {
            self.m.remove(b, wrapping);
            self.stats.inc("inner_nested_destroyed");
        }
        let prop: &'static str = if run.kind == 1 { "C07" } else { "C06" };
        let k = run.k;
        run.k += 1;
        if run.broke_at.is_some() {
            vio(prop, "ran-after-break", format!("{}: nested macro (kind {}) on {} ran its closure again after Break", site, run.kind, W::archs()[run.oi].info().name));
            self.failed = true;
            return Step::Break;
        }
        if matched != W::archs()[run.oi].info().id || matched != ((ent >> 32) & 0xFF) as u8 {
            vio(prop, "matched-archetype-alias", format!("{}: nested macro: MatchedArchetype::ARCHETYPE_ID is {} while visiting {:#x}", site, matched, ent));
            self.failed = true;
            return Step::Break;
        }
        match self.m.ents.get(&ent) {
            Some(r) if r.arch == run.oi => {}
            other => {
                vio(prop, "visited-non-live", format!("{}: nested macro pinned to {} ran for {:#x} ({})", site, W::archs()[run.oi].info().name, ent, if other.is_some() { "another archetype" } else { "not a live entity" }));
                self.failed = true;
                return Step::Break;
            }
        }
        if !run.seen.insert(ent) {
            vio(prop, "visited-twice", format!("{}: nested macro ran twice for {:#x}", site, ent));
            self.failed = true;
            return Step::Break;
        }
        if let Some(d) = dir {
            if d.archetype_id() != W::archs()[run.oi].info().id {
                vio("C09", "direct-param-wrong-archetype", format!("{}: nested macro: direct handle parameter carries archetype id {}", site, d.archetype_id()));
            }
        }
        let am = &self.m.archs[run.oi];
        self.nested_visits.push(VisitRec { ent, arch: run.oi, dir, removals: am.removals, creations: am.creations, ver: am.ver });
        if run.panic_at == Some(k) {
            // the destroy decided by this visit never happens; those of completed visits stand
            self.nested = None;
            self.nested_counts.push((self.k.saturating_sub(1), k + 1));
            self.stats.inc("F1_closure_panic_in_nested_macro");
            rt::with(|r| r.fired = Some(Injected::Closure));
            std::panic::panic_any(Injected::Closure);
        }
        let n0 = run.start_live.len();
        let step = match run.kind {
            0 => {
                if k == run.n as usize % (n0 + 2) {
                    Step::Break
                } else {
                    Step::Continue
                }
            }
            1 => {
                let at_max = near_max(ent as u32 as u64) || near_max(am.ver);
                let destroy = (run.mask >> (k % 32)) & 1 == 1 && (!at_max || wrapping);
                let brk = k == (run.n as usize / 7) % (n0 + 3);
                match (destroy, brk) {
                    (false, false) => Step::Continue,
                    (false, true) => Step::Break,
                    (true, false) => Step::ContinueDestroy,
                    (true, true) => Step::BreakDestroy,
                }
            }
            _ => Step::Continue,
        };
        if matches!(step, Step::ContinueDestroy | Step::BreakDestroy) {
            run.pending = Some(ent);
        }
        if matches!(step, Step::Break | Step::BreakDestroy) {
            run.broke_at = Some(k);
        }
        step
    }

    fn nested_done<W: WorldSpec>(&mut self, found: Option<bool>) {
        let wrapping = self.wrapping;
        let mut run = match self.nested.take() {
            Some(r) => r,
            None => return,
        };
        if let Some(b) = run.pending.take() {
            self.m.remove(b, wrapping);
            self.stats.inc("inner_nested_destroyed");
        }
        self.nested_counts.push((self.k.saturating_sub(1), run.k));
        if self.failed || rt::has_violation() {
            return;
        }
        let prop: &'static str = if run.kind == 1 { "C07" } else { "C06" };
        let name = W::archs()[run.oi].info().name;
        match run.kind {
            0 | 1 => match run.broke_at {
                None => {
                    if run.seen != run.start_live {
                        let missing: Vec<_> = run.start_live.difference(&run.seen).collect();
                        let extra: Vec<_> = run.seen.difference(&run.start_live).collect();
                        vio(prop, "not-every-entity-visited", format!("{}: nested macro (kind {}) on {}: missing {:x?} extra {:x?}", self.site.name, run.kind, name, missing, extra));
                        self.failed = true;
                    }
                    self.stats.inc("inner_nested_full_pass");
                }
                Some(b) => {
                    if run.seen.len() != b + 1 {
                        vio(prop, "ran-after-break", format!("{}: nested macro on {} broke at visit {} but ran {} times", self.site.name, name, b, run.seen.len()));
                        self.failed = true;
                    }
                    self.stats.inc("inner_nested_break");
                }
            },
            _ => {
                let want: BTreeSet<Bits> = run.key.iter().copied().collect();
                if found != Some(true) || run.seen != want {
                    vio("C01", "live-handle-rejected", format!("{}: nested ecs_find! on {} with live {:x?} returned found={:?} visiting {:x?}", self.site.name, name, run.key, found, run.seen));
                    self.failed = true;
                }
            }
        }
    }

    pub fn on_visit<W: WorldSpec>(&mut self, mut v: Visit<'_, '_, W>) -> Step {
        self.finalize_pending();
        if self.broke_at.is_some() {
            self.calls_after_break += 1;
        }
        let k = self.k;
        self.k += 1;
        let act = self.plan.get(k).cloned().unwrap_or(VisitAct { step: Step::Continue, w: None, inner: Inner::Nothing, panic: false });
        let ent = v.ent;
        {
            // interleaving measure: (macro, site, visit bucket, step, write?, inner kind, fault?)
            let inner_tag: u64 = match &act.inner {
                Inner::Nothing => 0,
                Inner::OtherCreate { .. } => 1,
                Inner::OtherDestroy { .. } => 2,
                Inner::Acc { acc } => 3 + ((acc.kind as u64) << 4) + ((acc.m as u64) << 8),
                Inner::Peek { .. } => 4,
                Inner::OtherQuery { kind, .. } => 5 + ((*kind as u64 % 3) << 4),
                Inner::AltQuery { .. } => 6,
            };
            let key = [self.mac as u64, self.site.matches.len() as u64, k.min(12) as u64, act.step as u64, act.w.is_some() as u64, inner_tag, act.panic as u64]
                .iter()
                .fold(0x1a7e_u64, |h, x| mix(h, *x));
            self.inter.insert(key);
        }
        let prop: &'static str = if self.mac == QMacro::IterDestroy { "C07" } else { "C06" };
        // the documented alias: inside the closure `MatchedArchetype` is the archetype of the entity
        // being visited
        if v.matched != ((ent >> 32) & 0xFF) as u8 {
            vio(prop, "matched-archetype-alias", format!("{}: MatchedArchetype::ARCHETYPE_ID is {} while visiting {:#x}", self.site.name, v.matched, ent));
            self.failed = true;
            return Step::Break;
        }
        let (arch, pos) = match self.m.ents.get(&ent) {
            Some(r) => match self.site.matches.iter().position(|x| *x == r.arch) {
                Some(p) => (r.arch, p),
                None => {
                    vio(prop, "visited-unmatched-archetype", format!("{}: closure ran for {:#x} of archetype {} which the parameter list does not match", self.site.name, ent, W::archs()[r.arch].info().name));
                    self.failed = true;
                    return Step::Break;
                }
            },
            None => {
                vio(prop, "visited-non-live", format!("{}: closure ran for {:#x}, which is not a live entity", self.site.name, ent));
                self.failed = true;
                return Step::Break;
            }
        };
        if !self.seen.insert(ent) {
            vio(prop, "visited-twice", format!("{}: closure ran twice for {:#x}", self.site.name, ent));
            self.failed = true;
            return Step::Break;
        }
        let colmap = self.site.cols[pos];
        for (i, c) in v.cols.iter().enumerate() {
            let o = c.obs();
            let want = self.m.ents[&ent].cols[colmap[i]];
            if o != want {
                vio("C02", "query-argument-mismatch", format!("{}: parameter {} of the visit of {:#x} is {:?}, the entity's value is {:?}", self.site.name, i, ent, o, want));
                self.failed = true;
                return Step::Break;
            }
        }
        if let Some(d) = v.dir {
            if d.archetype_id() != W::archs()[arch].info().id {
                vio("C09", "direct-param-wrong-archetype", format!("{}: direct handle parameter carries archetype id {}", self.site.name, d.archetype_id()));
            }
            // borrow mode: the handle must be accepted at the moment it is issued
            if let Some(w) = v.world {
                let drv = W::archs()[arch];
                match catch(|| drv.resolve(w, Key::DA(d))) {
                    Ok(Some(idx)) => {
                        let ents = drv.entities(w);
                        if ents.get(idx).copied() != Some(ent) {
                            vio("C09", "direct-param-designates-other", format!("{}: direct handle handed to the visit of {:#x} resolves to {:?}", self.site.name, ent, ents.get(idx)));
                        }
                    }
                    Ok(None) => vio("C09", "direct-param-rejected-at-issue", format!("{}: direct handle handed to the visit of {:#x} is rejected inside the closure", self.site.name, ent)),
                    Err(c) => vio("C10", "unexpected-panic", format!("resolve of closure direct handle panicked: {}", c.msg)),
                }
            }
        }
        // write through a &mut parameter
        if let Some((pi, p)) = act.w {
            if !v.cols.is_empty() {
                let i = pi as usize % v.cols.len();
                if self.site.muts[i] {
                    let col = colmap[i];
                    let pv = p & payload_mask(kinds_of::<W>(arch)[col]);
                    if v.cols[i].set(pv) {
                        self.m.ents.get_mut(&ent).unwrap().cols[col].payload = pv;
                        self.stats.inc("write_ok");
                        self.stats.inc(match self.mac {
                            QMacro::Iter => "write_ecs_iter",
                            QMacro::IterBorrow => "write_ecs_iter_borrow",
                            QMacro::IterDestroy | QMacro::IterDestroyUnit | QMacro::IterDestroyStep => "write_ecs_iter_destroy",
                            QMacro::Find => "write_find",
                            QMacro::FindBorrow => "write_find_borrow",
                        });
                    }
                }
            }
        }
        let am = &self.m.archs[arch];
        self.visits.push(VisitRec { ent, arch, dir: v.dir, removals: am.removals, creations: am.creations, ver: am.ver });
        match &act.inner {
            Inner::Nothing => {}
            Inner::OtherCreate { p } => {
                if let (Some(o), Some(oi)) = (v.other.as_mut(), self.site.other) {
                    let payloads = payloads_for::<W>(oi, *p);
                    let cols = expect_cols::<W>(oi, &payloads);
                    let (lb, cb) = (o.a_len(), o.a_capacity());
                    let bits = o.a_create(&payloads);
                    if self.m.issued.contains(&bits) && !(self.wrapping && self.m.wrapped.contains(&(oi, (bits >> 40) as u32))) {
                        vio("C08", "handle-issued-twice", format!("create inside a query closure returned {:#x} again", bits));
                    }
                    let ca = o.a_capacity();
                    if lb < cb && ca != cb {
                        vio("C12", "grew-below-capacity", format!("capacity changed {} -> {} with len {}", cb, ca, lb));
                    }
                    self.m.insert(bits, oi, cols);
                    self.m.archs[oi].cap = ca;
                    self.created_other.push(bits);
                    self.stats.inc("inner_other_create");
                }
            }
            Inner::OtherDestroy { n } => {
                if let (Some(o), Some(oi)) = (v.other.as_mut(), self.site.other) {
                    let live = self.m.live_of(oi);
                    if !live.is_empty() {
                        let b = live[*n as usize % live.len()];
                        let at_max = near_max(b as u32 as u64) || near_max(self.m.archs[oi].ver);
                        if !at_max || self.wrapping {
                            let r = o.a_destroy(Key::T(any_from_bits(b).unwrap()));
                            match r {
                                Some(obs) if obs == self.m.ents[&b].cols => {
                                    self.m.remove(b, self.wrapping);
                                    self.stats.inc("inner_other_destroy");
                                }
                                other => vio("C01", "live-handle-rejected-by-destroy", format!("destroy inside a query closure of live {:#x} returned {:?}", b, other)),
                            }
                        }
                    }
                }
            }
            Inner::Acc { acc } => {
                if let Some(w) = v.world {
                    let mut held: Vec<(usize, usize, bool)> = colmap.iter().enumerate().map(|(i, c)| (arch, *c, self.site.muts[i])).collect();
                    // half of the time aim the nested access at the very column this visit holds
                    let mut acc = *acc;
                    if acc.ent % 2 == 0 && !colmap.is_empty() {
                        acc.a = arch as u8;
                        acc.col = colmap[(acc.ent as usize / 2) % colmap.len()] as u8;
                    }
                    let accs = [acc];
                    run_access::<W>(w, self.m, self.stats, &mut held, &accs, 0, 0);
                    self.stats.inc("inner_nested_access");
                }
            }
            Inner::OtherQuery { kind, n, mask, pk } => {
                // runs after this visit returns to the site body (the `other` borrow must end first)
                if v.other.is_some() && self.site.other.is_some() {
                    self.want_nested = Some((*kind, *n, *mask, *pk));
                }
            }
            Inner::AltQuery { n, mask } => {
                if v.world.is_none() {
                    self.want_alt = Some((*n, *mask));
                }
            }
            Inner::Peek { h } => {
                if let Some(w) = v.world {
                    // a lookup through &self while the query is in flight must agree with the model
                    let live: Vec<Bits> = self.m.ents.keys().copied().collect();
                    if !live.is_empty() {
                        let b = live[h.n as usize % live.len()];
                        let a = self.m.ents[&b].arch;
                        let any = any_from_bits(b).unwrap();
                        match catch(|| W::archs()[a].contains(w, Lvl::World, Key::A(any))) {
                            Ok(true) => {}
                            Ok(false) => vio("C01", "live-handle-rejected", format!("contains({:#x}) is false inside a borrow-mode closure", b)),
                            Err(c) => vio("C10", "unexpected-panic", format!("contains inside closure panicked: {}", c.msg)),
                        }
                        self.stats.inc("inner_peek");
                    }
                }
            }
        }
        if act.panic {
            self.want_nested = None;
            self.want_alt = None;
            rt::with(|r| r.fired = Some(Injected::Closure));
            std::panic::panic_any(Injected::Closure);
        }
        let step = match self.mac {
            QMacro::IterDestroy => act.step,
            QMacro::Iter | QMacro::IterBorrow => match act.step {
                Step::Break | Step::BreakDestroy => Step::Break,
                _ => Step::Continue,
            },
            _ => act.step,
        };
        if matches!(self.mac, QMacro::Iter | QMacro::IterBorrow | QMacro::IterDestroy) {
            if matches!(step, Step::ContinueDestroy | Step::BreakDestroy) {
                self.pending_destroy = Some(ent);
            }
            if matches!(step, Step::Break | Step::BreakDestroy) && self.broke_at.is_none() {
                self.broke_at = Some(k);
            }
        }
        step
    }
}

/// A complete `ecs_iter_destroy!` of site `si` on another world, run from inside the closure of a
/// query of the same site in flight on the current world.
fn run_alt_query<W: WorldSpec>(aw: &mut W, am: &mut Model, si: usize, n: u32, mask: u32, wrapping: bool, stats: &mut Stats) {
    let info: &'static SiteInfo = &W::sites()[si];
    let start: BTreeSet<Bits> = am.ents.iter().filter(|(_, r)| info.matches.contains(&r.arch)).map(|(b, _)| *b).collect();
    let mut seen: BTreeSet<Bits> = BTreeSet::new();
    let mut pending: Option<Bits> = None;
    let mut k = 0usize;
    let mut bad: Option<String> = None;
    let brk = (n as usize) % (start.len() + 2);
    let mut broke = false;
    {
        let mut hook = |v: Visit<'_, '_, W>| -> Step {
            if let Some(b) = pending.take() {
                am.remove(b, wrapping);
            }
            if broke {
                bad = Some("closure ran again after Break".to_string());
                return Step::Break;
            }
            let ent = v.ent;
            let (arch, pos) = match am.ents.get(&ent) {
                Some(r) => match info.matches.iter().position(|x| *x == r.arch) {
                    Some(p) => (r.arch, p),
                    None => {
                        bad = Some(format!("closure ran for {:#x} of an unmatched archetype", ent));
                        return Step::Break;
                    }
                },
                None => {
                    bad = Some(format!("closure ran for {:#x}, not a live entity of that world", ent));
                    return Step::Break;
                }
            };
            if !seen.insert(ent) {
                bad = Some(format!("closure ran twice for {:#x}", ent));
                return Step::Break;
            }
            let colmap = info.cols[pos];
            for (i, c) in v.cols.iter().enumerate() {
                let want = am.ents[&ent].cols[colmap[i]];
                if c.obs() != want {
                    bad = Some(format!("parameter {} of the visit of {:#x} is {:?}, the entity's value is {:?}", i, ent, c.obs(), want));
                    return Step::Break;
                }
            }
            let at_max = near_max(ent as u32 as u64) || near_max(am.archs[arch].ver);
            let destroy = (mask >> (k % 32)) & 1 == 1 && (!at_max || wrapping);
            let b = k == brk;
            k += 1;
            if destroy {
                pending = Some(ent);
            }
            if b {
                broke = true;
            }
            match (destroy, b) {
                (false, false) => Step::Continue,
                (false, true) => Step::Break,
                (true, false) => Step::ContinueDestroy,
                (true, true) => Step::BreakDestroy,
            }
        };
        aw.query_mut(si, QMacro::IterDestroy, None, &mut hook);
    }
    if let Some(b) = pending.take() {
        am.remove(b, wrapping);
    }
    stats.inc("inner_alt_world_iter_destroy");
    if let Some(msg) = bad {
        vio("C07", "cross-world-nested-query", format!("{}: ecs_iter_destroy! on another world from inside the closure: {}", info.name, msg));
    } else if !broke && seen != start {
        let missing: Vec<_> = start.difference(&seen).collect();
        vio("C07", "not-every-entity-visited", format!("{}: ecs_iter_destroy! on another world from inside the closure: missing {:x?} of {}", info.name, missing, start.len()));
    } else if broke && seen.len() != brk + 1 {
        vio("C07", "ran-after-break", format!("{}: ecs_iter_destroy! on another world: broke at visit {} but ran {} times", info.name, brk, seen.len()));
    }
}

/// Would acquiring (arch, col, mutable) conflict with what is currently held?
fn conflicts(held: &[(usize, usize, bool)], a: usize, col: usize, m: bool) -> bool {
    held.iter().any(|(ha, hc, hm)| *ha == a && *hc == col && (m || *hm))
}

/// Executes `accs[i]` on `w` and, while it is held, `accs[i + 1]`. Every level compares the real
/// panic / no-panic outcome and the values seen with the per-column reader/writer model.
pub fn run_access<W: WorldSpec>(w: &W, m: &Model, stats: &mut Stats, held: &mut Vec<(usize, usize, bool)>, accs: &[Access], i: usize, at: u32) {
    if i >= accs.len() || rt::has_violation() {
        return;
    }
    let acc = accs[i];
    let n = W::archs().len();
    let a = acc.a as usize % n;
    let drv = W::archs()[a];
    let kinds = drv.info().kinds;
    let col = acc.col as usize % kinds.len();
    let live = m.live_of(a);
    let ent = if live.is_empty() { None } else { Some(live[acc.ent as usize % live.len()]) };
    let saved = held.len();
    let mutable = acc.m;
    // does this access actually take a borrow in the current state?
    if matches!(acc.kind, AccKind::DoubleFind | AccKind::DoubleIter) {
        // the same column named twice in one borrow-mode query: refused whenever it reaches an entity
        let mut ran = false;
        let is_iter = acc.kind == AccKind::DoubleIter;
        // determine the site's archetype from a call that cannot reach an entity (find without key)
        let (sa, _sc) = match w.acc_double_use(false, None, &mut || {}) {
            Some(x) => x,
            None => return,
        };
        let slive = m.live_of(sa);
        let key = if slive.is_empty() { None } else { any_from_bits(slive[acc.ent as usize % slive.len()]).map(Key::A) };
        let reaches = !slive.is_empty();
        let r = catch(|| w.acc_double_use(is_iter, if is_iter { None } else { key }, &mut || ran = true));
        stats.inc("c11_access");
        match r {
            Ok(_) => {
                if reaches {
                    vio("C11", "aliasing-access-granted", format!("a borrow-mode query naming one column as & and &mut ran to completion ({:?})", acc));
                }
            }
            Err(c) => {
                if is_borrow_panic(&c.msg) && reaches && !ran {
                    stats.inc("F6_borrow_conflict");
                    stats.inc("c11_double_use_refused");
                } else if is_borrow_panic(&c.msg) {
                    vio("C11", "spurious-refusal", format!("double-use query panicked with '{}' without reaching an entity", c.msg));
                } else {
                    vio("C10", "unexpected-panic", format!("double-use query panicked: {}", c.msg));
                }
            }
        }
        return;
    }
    let takes_borrow = match acc.kind {
        AccKind::FindBorrow | AccKind::BorrowComp | AccKind::IterBorrow => ent.is_some(),
        AccKind::BorrowSlice => true,
        AccKind::CloneWorld | AccKind::CloneArch | AccKind::CloneFromWorld | AccKind::CloneFromArch => true,
        AccKind::DoubleFind | AccKind::DoubleIter => false,
    };
    let predicted = match acc.kind {
        AccKind::CloneWorld | AccKind::CloneFromWorld => held.iter().any(|(_, _, hm)| *hm),
        // Archetype::clone borrows every column of that archetype only
        AccKind::CloneArch | AccKind::CloneFromArch => held.iter().any(|(ha, _, hm)| *ha == a && *hm),
        _ => takes_borrow && conflicts(held, a, col, mutable),
    };
    let mut ran_inner = false;
    let mut seen_obs: Option<(Bits, Obs)> = None;
    let r = {
        let held_ref = &mut *held;
        let stats_ref = &mut *stats;
        let ran = &mut ran_inner;
        let seen = &mut seen_obs;
        catch(move || match acc.kind {
            AccKind::FindBorrow => {
                if let Some(b) = ent {
                    let key = Key::A(any_from_bits(b).unwrap());
                    w.acc_find_borrow(a, col, mutable, key, &mut |o| {
                        *seen = Some((b, o));
                        held_ref.push((a, col, mutable));
                        *ran = true;
                        run_access::<W>(w, m, stats_ref, held_ref, accs, i + 1, at);
                        held_ref.pop();
                    });
                }
            }
            AccKind::IterBorrow => {
                let len = live.len();
                let target = if len == 0 { 0 } else { at as usize % len };
                let mut k = 0usize;
                w.acc_iter_borrow(a, col, mutable, &mut |b, o| {
                    if k == target {
                        *seen = Some((b, o));
                        held_ref.push((a, col, mutable));
                        *ran = true;
                        run_access::<W>(w, m, stats_ref, held_ref, accs, i + 1, at);
                        held_ref.pop();
                    }
                    k += 1;
                    true
                });
            }
            AccKind::BorrowComp => {
                if let Some(b) = ent {
                    let key = Key::T(any_from_bits(b).unwrap());
                    drv.with_bcomp(w, key, col, mutable, &mut |o| {
                        *seen = Some((b, o));
                        held_ref.push((a, col, mutable));
                        *ran = true;
                        run_access::<W>(w, m, stats_ref, held_ref, accs, i + 1, at);
                        held_ref.pop();
                    });
                }
            }
            AccKind::BorrowSlice => {
                let _g = drv.hold_bslice(w, col, mutable);
                held_ref.push((a, col, mutable));
                *ran = true;
                run_access::<W>(w, m, stats_ref, held_ref, accs, i + 1, at);
                held_ref.pop();
            }
            AccKind::CloneWorld => {
                // a fork taken while shared borrows are held; every other one is kept as a replica
                let tok = rt::log_scope_begin();
                let r = std::panic::catch_unwind(std::panic::AssertUnwindSafe(|| w.clone()));
                let seg = rt::log_scope_end(tok);
                match r {
                    Ok(c) => {
                        *ran = true;
                        if acc.ent % 2 == 1 && rt::forks_stashed() == 0 {
                            rt::stash_fork(Box::new(c), Box::new(m.clone()), seg);
                        } else {
                            drop(c);
                        }
                    }
                    Err(p) => std::panic::resume_unwind(p),
                }
            }
            AccKind::CloneArch => {
                drv.clone_and_drop(w);
                *ran = true;
            }
            // the borrowed world is the SOURCE of a clone_from into a scratch world
            AccKind::CloneFromWorld => {
                let mut c = W::fresh_default();
                c.clone_from(w);
                *ran = true;
                drop(c);
            }
            AccKind::CloneFromArch => {
                let mut c = W::fresh_default();
                drv.clone_from_other(&mut c, w);
                *ran = true;
                drop(c);
            }
            AccKind::DoubleFind | AccKind::DoubleIter => {}
        })
    };
    held.truncate(saved);
    stats.inc("c11_access");
    match r {
        Ok(()) => {
            if predicted {
                vio("C11", "aliasing-access-granted", format!("access {:?} was granted although {:?} is held", acc, held));
            } else if takes_borrow && !ran_inner && !rt::has_violation() {
                vio("C11", "access-did-not-run", format!("access {:?} neither ran nor panicked", acc));
            }
            if let Some((b, o)) = seen_obs {
                match m.ents.get(&b) {
                    Some(rec) if rec.cols[col] == o => {}
                    other => vio("C02", "borrowed-value-mismatch", format!("access {:?} saw {:?} for {:#x}, the model has {:?}", acc, o, b, other.map(|r| r.cols[col]))),
                }
            }
            if !predicted {
                stats.inc("c11_granted");
            }
        }
        Err(c) => {
            if is_borrow_panic(&c.msg) {
                if predicted && !ran_inner {
                    stats.inc("F6_borrow_conflict");
                } else if ran_inner {
                    // the conflict was raised by a deeper level that did not catch it: cannot
                    // happen, every level catches its own
                    vio("C11", "conflict-escaped", format!("borrow panic escaped from inside access {:?}: {}", acc, c.msg));
                } else {
                    vio("C11", "spurious-refusal", format!("access {:?} panicked with '{}' although nothing conflicting is held ({:?})", acc, c.msg, held));
                }
            } else if c.injected.is_some() {
                std::panic::panic_any(c.injected.unwrap());
            } else {
                vio("C10", "unexpected-panic", format!("access {:?} panicked: {}", acc, c.msg));
            }
        }
    }
}

impl<W: WorldSpec> Engine<W> {
    /// After any runtime-borrowed activity (normal end or unwinding): every column of every
    /// archetype must be mutably borrowable again.
    pub fn check_all_released(&mut self, wid: usize, what: &str) {
        let w = match self.ws[wid].as_ref() {
            Some(w) => w,
            None => return,
        };
        for d in W::archs().iter() {
            for col in 0..d.info().kinds.len() {
                if let Err(c) = catch(|| {
                    let _g = d.hold_bslice(w, col, true);
                }) {
                    vio("C11", "borrow-not-released", format!("after {}: column {} of {} cannot be mutably borrowed: {}", what, col, d.info().name, c.msg));
                    return;
                }
            }
        }
    }

    pub fn op_nest(&mut self, accs: &[Access], at: u32) {
        if !self.cur_alive() || accs.is_empty() {
            return;
        }
        let wid = self.cur;
        let w = self.ws[wid].as_ref().unwrap();
        let mut held = Vec::new();
        let r = catch(|| run_access::<W>(w, &self.ms[wid], &mut self.stats, &mut held, accs, 0, at));
        if let Err(c) = r {
            vio("C10", "unexpected-panic", format!("nested access {:?} panicked: {}", accs, c.msg));
        }
        rt::h(&[0x4E57, accs.len() as u64]);
        self.stats.inc("nest_op");
        self.adopt_forks(wid);
        self.check_all_released(wid, "nested runtime-borrowed accesses");
    }

    pub fn op_query(&mut self, site: u8, mac: QMacro, key: Option<Sel>, plan: &[VisitAct], dp: Option<u32>) {
        if !self.cur_alive() {
            return;
        }
        let wid = self.cur;
        let sites = W::sites();
        if sites.is_empty() {
            return;
        }
        let si = site as usize % sites.len();
        let info: &'static SiteInfo = &sites[si];
        let is_find = matches!(mac, QMacro::Find | QMacro::FindBorrow);
        // find: pick the key
        let (qkey, find_exp, ei) = if is_find {
            let sel = key.unwrap_or(Sel { class: SEL_LIVE, n: 0 });
            let ei = match self.select(sel) {
                Some(i) => i,
                None => return,
            };
            self.touched.push(ei);
            let ta = self.target_arch(ei, 0);
            let k = self.key_for(ei, false, false, ta);
            let exp = self.expect(wid, ei, k, ta);
            (Some(k), Some((exp, ta)), Some(ei))
        } else {
            (None, None, None)
        };
        let start_live: BTreeSet<Bits> = self.ms[wid].ents.iter().filter(|(_, r)| info.matches.contains(&r.arch)).map(|(b, _)| *b).collect();
        // ecs_iter_destroy! accepts closures returning EcsStepDestroy, EcsStep or (): use the
        // narrower forms when the plan never asks for more
        let mac = match mac {
            QMacro::IterDestroyUnit | QMacro::IterDestroyStep => QMacro::IterDestroy,
            m => m,
        };
        let call_form = if mac == QMacro::IterDestroy {
            let any_destroy = plan.iter().any(|a| matches!(a.step, Step::ContinueDestroy | Step::BreakDestroy));
            let any_break = plan.iter().any(|a| matches!(a.step, Step::Break | Step::BreakDestroy));
            if !any_destroy && !any_break && plan.len() % 2 == 1 {
                QMacro::IterDestroyUnit
            } else if !any_destroy && plan.len() % 3 != 0 {
                QMacro::IterDestroyStep
            } else {
                QMacro::IterDestroy
            }
        } else {
            mac
        };
        if call_form == QMacro::IterDestroyUnit {
            self.stats.inc("iter_destroy_unit_closure");
        } else if call_form == QMacro::IterDestroyStep {
            self.stats.inc("iter_destroy_ecsstep_closure");
        }
        let wrapping = self.cfg.wrapping;
        // F3 inside ecs_iter_destroy!: the loop drops the tuple returned by destroy itself. Only
        // armed when no drop can happen in harness code running inside the closure.
        let gecs_drops_only = mac == QMacro::IterDestroy && !plan.iter().any(|a| matches!(a.inner, Inner::OtherDestroy { .. } | Inner::OtherQuery { .. } | Inner::AltQuery { .. }));
        rt::arm(None, if gecs_drops_only { dp } else { None }, None, false);
        // another live world of the same type, lent to the closure for cross-world nesting
        let is_mut_mode = !matches!(mac, QMacro::IterBorrow | QMacro::FindBorrow);
        let alt_id = if is_mut_mode && plan.iter().any(|a| matches!(a.inner, Inner::AltQuery { .. })) { self.alive_worlds().into_iter().find(|o| *o != wid) } else { None };
        let mut alt_w: Option<W> = alt_id.and_then(|o| self.ws[o].take());
        let mut alt_m: Option<Model> = alt_id.map(|o| std::mem::replace(&mut self.ms[o], Model::new(&[])));
        let (res, visits, created_other, pending, broke_at, calls_after_break, k, failed, nested_visits, nested_counts) = {
            let Engine { ws, ms, stats, interleavings, .. } = self;
            let w = ws[wid].as_mut().unwrap();
            let mut qs = QState {
                m: &mut ms[wid],
                stats,
                site: info,
                mac,
                plan,
                k: 0,
                visits: Vec::new(),
                seen: BTreeSet::new(),
                pending_destroy: None,
                created_other: Vec::new(),
                wrapping,
                broke_at: None,
                calls_after_break: 0,
                wid,
                failed: false,
                inter: interleavings,
                want_nested: None,
                nested_counts: Vec::new(),
                nested: None,
                nested_visits: Vec::new(),
                si,
                want_alt: None,
            };
            let res = {
                let alt = match (alt_w.as_mut(), alt_m.as_mut()) {
                    (Some(a), Some(b)) => Some((a, b)),
                    _ => None,
                };
                let mut hook = QHook::<W>(&mut qs, alt);
                catch(|| match mac {
                    QMacro::Iter | QMacro::Find => w.query_mut(si, mac, qkey, &mut hook),
                    QMacro::IterDestroy | QMacro::IterDestroyUnit | QMacro::IterDestroyStep => w.query_mut(si, call_form, qkey, &mut hook),
                    QMacro::IterBorrow | QMacro::FindBorrow => w.query_borrow(si, mac, qkey, &mut hook),
                })
            };
            if res.is_ok() {
                qs.finalize_pending();
            }
            // a nested macro cut short by unwinding: the destroy of its last visit never happened
            (res, qs.visits, qs.created_other, qs.pending_destroy, qs.broke_at, qs.calls_after_break, qs.k, qs.failed, qs.nested_visits, qs.nested_counts)
        };
        if let Some(o) = alt_id {
            self.ws[o] = alt_w.take();
            if let Some(m) = alt_m.take() {
                self.ms[o] = m;
            }
        }
        let drop_calls = rt::with(|r| r.drop_calls);
        rt::disarm();
        rt::h(&[0x9E47, si as u64, mac as u64, k as u64]);
        self.yields.push((self.step, 0, k as u32));
        // borrow-mode queries change no structure: the book's natives are those of the fork instant
        self.adopt_forks(wid);
        if gecs_drops_only && drop_calls > 0 {
            self.yields.push((self.step, 5, drop_calls));
        }
        for (ok, cnt) in &nested_counts {
            if *cnt > 0 && *ok < 4096 {
                self.yields.push((self.step, 8, ((*ok as u32) << 8) | (*cnt).min(255) as u32));
            }
        }
        for b in created_other {
            self.add_ind(b, wid);
        }
        // direct handles handed to the closure go into the book with the epochs of their visit
        for v in &visits {
            if let Some(d) = v.dir {
                self.add_dir(d, v.ent, wid, v.removals, v.creations, v.ver);
                self.stats.inc("direct_from_closure");
            }
        }
        for v in &nested_visits {
            if let Some(d) = v.dir {
                self.add_dir(d, v.ent, wid, v.removals, v.creations, v.ver);
                self.stats.inc("direct_from_nested_closure");
            }
        }
        let prop: &'static str = if mac == QMacro::IterDestroy { "C07" } else { "C06" };
        if failed || rt::has_violation() {
            return;
        }
        match res {
            Ok(r) => {
                if is_find {
                    let (exp, ta) = find_exp.unwrap();
                    let matched = info.matches.contains(&ta);
                    let e = &self.book[ei.unwrap()];
                    let lp: &'static str = if e.is_direct() { "C09" } else if e.forged || e.native_in(wid).is_none() { "C03" } else { "C01" };
                    match (r.is_some(), visits.len()) {
                        (true, 1) => {
                            if exp.acc == Tri::No || !matched {
                                vio(lp, "dead-handle-accepted", format!("{} find with {:?} ran the closure although model says absent/unmatched", info.name, qkey));
                            } else if Some(visits[0].ent) != exp.target {
                                vio(lp, "find-reached-other-entity", format!("{} find with {:?} reached {:#x}, expected {:?}", info.name, qkey, visits[0].ent, exp.target));
                            }
                            self.stats.inc("site_find_hit");
                        }
                        (false, 0) => {
                            if exp.acc == Tri::Yes && matched {
                                vio(lp, "live-handle-rejected", format!("{} find with {:?} returned None although the entity is alive in a matched archetype", info.name, qkey));
                            }
                            if exp.acc == Tri::Yes && !matched {
                                self.stats.inc("site_find_unmatched_archetype");
                            }
                        }
                        (s, n) => vio(prop, "find-closure-count", format!("{} find returned is_some={} but the closure ran {} times", info.name, s, n)),
                    }
                } else {
                    let seen: BTreeSet<Bits> = visits.iter().map(|v| v.ent).collect();
                    match broke_at {
                        None => {
                            if seen != start_live {
                                let missing: Vec<_> = start_live.difference(&seen).collect();
                                let extra: Vec<_> = seen.difference(&start_live).collect();
                                vio(prop, "not-every-entity-visited", format!("{} {:?}: missing {:x?} extra {:x?} (of {} alive at loop start)", info.name, mac, missing, extra, start_live.len()));
                            }
                            self.stats.inc("query_full_pass");
                        }
                        Some(b) => {
                            if calls_after_break != 0 || visits.len() != b + 1 {
                                vio(prop, "ran-after-break", format!("{} {:?}: closure returned Break at visit {} but ran {} times in total", info.name, mac, b, visits.len()));
                            }
                            self.stats.inc(if b == 0 { "break_at_first" } else if b + 1 == start_live.len() { "break_at_last" } else { "break_in_middle" });
                        }
                    }
                    if mac == QMacro::IterDestroy {
                        self.stats.inc("iter_destroy_ok");
                    }
                }
            }
            Err(c) => {
                self.faulted = true;
                if c.injected == Some(Injected::Closure) {
                    self.stats.inc(match mac {
                        QMacro::Iter => "F1_closure_panic_iter",
                        QMacro::IterBorrow => "F1_closure_panic_iter_borrow",
                        QMacro::IterDestroy | QMacro::IterDestroyUnit | QMacro::IterDestroyStep => "F1_closure_panic_iter_destroy",
                        QMacro::Find => "F1_closure_panic_find",
                        QMacro::FindBorrow => "F1_closure_panic_find_borrow",
                    });
                    // writes and destroys of completed visits stand; nothing is pending
                } else if c.injected == Some(Injected::Drop) {
                    // the panic came from dropping the tuple of the entity being destroyed: the
                    // destroy itself had completed
                    self.stats.inc("F3_drop_panic_in_iter_destroy");
                    match pending {
                        Some(t) => {
                            let ta = self.ms[wid].ents[&t].arch;
                            self.settle_after_panic(wid, ta, t, "ecs_iter_destroy! (panic in Drop of the removed components)");
                        }
                        None => vio("C10", "unexpected-panic", format!("{} {:?}: a Drop panic surfaced with no destroy in flight", info.name, mac)),
                    }
                } else if is_overflow_panic(&c.msg) {
                    match pending {
                        Some(t) if !wrapping && (near_max(t as u32 as u64) || near_max(self.ms[wid].archs[self.ms[wid].ents[&t].arch].ver)) => {
                            self.stats.inc("F5_version_overflow_in_iter_destroy");
                            let ta = self.ms[wid].ents[&t].arch;
                            self.settle_after_panic(wid, ta, t, "ecs_iter_destroy!");
                        }
                        _ => vio("C08", "overflow-panic-without-overflow", format!("{} {:?} panicked with '{}' although no counter is at its maximum", info.name, mac, c.msg)),
                    }
                } else if is_find && find_exp.map_or(false, |(e, _)| e.panic_ok) && is_clean_forged_panic(&c.msg) {
                    self.stats.inc("forged_clean_panic");
                    self.faulted = false;
                } else {
                    vio("C10", "unexpected-panic", format!("{} {:?} panicked: {}", info.name, mac, c.msg));
                }
            }
        }
        if matches!(mac, QMacro::IterBorrow | QMacro::FindBorrow) {
            self.check_all_released(wid, "a borrow-mode query");
        }
    }
}
