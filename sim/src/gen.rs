//! Seeded generation of run specifications. One integer decides everything; generation never
//! looks at execution results, so a spec is executable in any state and any sub-sequence of it too.

use crate::engine::BuildCfg;
use crate::ops::*;
use crate::spec::*;

#[derive(Clone)]
pub struct Rng(pub u64);

impl Rng {
    pub fn new(seed: u64) -> Self {
        Rng(seed ^ 0x1234_5678_9ABC_DEF1)
    }
    #[inline]
    pub fn next(&mut self) -> u64 {
        self.0 = self.0.wrapping_add(0x9E3779B97F4A7C15);
        let mut z = self.0;
        z = (z ^ (z >> 30)).wrapping_mul(0xBF58476D1CE4E5B9);
        z = (z ^ (z >> 27)).wrapping_mul(0x94D049BB133111EB);
        z ^ (z >> 31)
    }
    #[inline]
    pub fn below(&mut self, n: u64) -> u64 {
        if n == 0 {
            0
        } else {
            self.next() % n
        }
    }
    #[inline]
    pub fn chance(&mut self, num: u64, den: u64) -> bool {
        self.below(den) < num
    }
    pub fn pick<T: Copy>(&mut self, v: &[T]) -> T {
        v[self.below(v.len() as u64) as usize]
    }
    pub fn weighted(&mut self, w: &[u32]) -> usize {
        let total: u64 = w.iter().map(|x| *x as u64).sum();
        let mut r = self.below(total.max(1));
        for (i, x) in w.iter().enumerate() {
            if r < *x as u64 {
                return i;
            }
            r -= *x as u64;
        }
        w.len() - 1
    }
}

pub struct WorldShape {
    pub name: &'static str,
    pub narch: usize,
    pub ncols: Vec<usize>,
    pub nsites: usize,
    /// sites with a single matched archetype (index, archetype)
    pub single_sites: Vec<(usize, usize)>,
}

pub fn shape_of<W: WorldSpec>() -> WorldShape {
    WorldShape {
        name: W::NAME,
        narch: W::archs().len(),
        ncols: W::archs().iter().map(|d| d.info().kinds.len()).collect(),
        nsites: W::sites().len(),
        single_sites: W::sites().iter().enumerate().filter(|(_, s)| s.matches.len() == 1).map(|(i, s)| (i, s.matches[0])).collect(),
    }
}

/// Which fault kinds a run may contain (swarm: a random subset, often none).
#[derive(Clone, Copy, Debug, Default)]
pub struct Faults {
    pub closure_panic: bool,
    pub clone_panic: bool,
    pub drop_panic: bool,
    pub into_panic: bool,
    pub forge: bool,
    pub crash: bool,
    pub fork: bool,
    pub preset: bool,
    pub nest: bool,
}

#[derive(Clone, Debug)]
pub struct Profile {
    /// weights per op kind, indexed as in `OPK_*`
    pub w: [u32; 23],
    pub faults: Faults,
    pub min_len: u32,
    pub mean_len: u32,
    pub max_len: u32,
}

pub const OPK_CREATE: usize = 0;
pub const OPK_CREATE_WITHIN: usize = 1;
pub const OPK_CREATE_LAZY: usize = 2;
pub const OPK_DESTROY: usize = 3;
pub const OPK_WRITE: usize = 4;
pub const OPK_MINT: usize = 5;
pub const OPK_SCAN: usize = 6;
pub const OPK_QUERY: usize = 7;
pub const OPK_CLONE: usize = 8;
pub const OPK_SWITCH: usize = 9;
pub const OPK_DROPWORLD: usize = 10;
pub const OPK_CLEAR: usize = 11;
pub const OPK_FILL: usize = 12;
pub const OPK_FORGE: usize = 13;
pub const OPK_PRESET: usize = 14;
pub const OPK_CYCLE: usize = 15;
pub const OPK_NEST: usize = 16;
pub const OPK_REPLACE: usize = 17;
pub const OPK_AUDITALL: usize = 18;
pub const OPK_BULK: usize = 19;
pub const OPK_BULK_DESTROY: usize = 20;
pub const OPK_SPAWN: usize = 21;
pub const OPK_CLONE_FROM: usize = 22;

pub fn profile_for(prop: &str, rng: &mut Rng, cfg: BuildCfg) -> Profile {
    // base mix (swarm member)
    let mut w: [u32; 23] = [30, 8, 0, 22, 10, 6, 4, 10, 2, 2, 0, 0, 1, 0, 0, 2, 0, 1, 0, 0, 0, 0, 0];
    match rng.below(6) {
        0 => {
            // churn heavy
            w[OPK_CREATE] = 40;
            w[OPK_DESTROY] = 40;
            w[OPK_CYCLE] = 8;
        }
        1 => {
            // growth heavy
            w[OPK_CREATE] = 60;
            w[OPK_DESTROY] = 10;
            w[OPK_FILL] = 4;
        }
        2 => {
            // query heavy
            w[OPK_QUERY] = 40;
            w[OPK_SCAN] = 10;
        }
        3 => {
            // direct-handle heavy
            w[OPK_MINT] = 25;
            w[OPK_DESTROY] = 25;
            w[OPK_QUERY] = 15;
        }
        4 => {
            // write heavy
            w[OPK_WRITE] = 40;
            w[OPK_SCAN] = 8;
        }
        _ => {}
    }
    let mut f = Faults::default();
    let mut min_len = 3;
    let mut mean_len = 16;
    let mut max_len = 80;
    match prop {
        "C01" => {
            w[OPK_CLONE] += 2;
            w[OPK_SWITCH] += 3;
            f.fork = true;
        }
        "C02" => {
            w[OPK_WRITE] += 25;
            w[OPK_SCAN] += 6;
            w[OPK_QUERY] += 8;
            f.fork = rng.chance(1, 2);
        }
        "C03" => {
            w[OPK_FORGE] = 35;
            w[OPK_CLONE] += 4;
            w[OPK_SWITCH] += 6;
            f.forge = true;
            f.fork = true;
        }
        "C04" => {
            w[OPK_CREATE_WITHIN] += 8;
            w[OPK_CLONE] += 4;
            w[OPK_DROPWORLD] = 2;
            w[OPK_REPLACE] += 2;
            w[OPK_QUERY] += 6;
            f.fork = true;
            f.crash = true;
            mean_len = 12;
            max_len = 40;
        }
        "C06" => {
            w[OPK_SCAN] += 30;
            w[OPK_QUERY] += 30;
            w[OPK_FILL] += 3;
        }
        "C07" => {
            w[OPK_QUERY] += 40;
            w[OPK_MINT] += 4;
            // a second world to run the same loop on from inside the closure (cross-world nesting)
            if rng.chance(1, 3) {
                f.fork = true;
                w[OPK_CLONE] += 4;
                w[OPK_SWITCH] += 3;
            }
        }
        "C08" => {
            w[OPK_CYCLE] += 15;
            w[OPK_CREATE_WITHIN] += 6;
            if cfg.hooks && rng.chance(1, 2) {
                f.preset = true;
                w[OPK_PRESET] = 6;
            }
        }
        "C09" => {
            w[OPK_MINT] += 25;
            w[OPK_QUERY] += 15;
            w[OPK_CLONE] += 3;
            w[OPK_SWITCH] += 4;
            f.fork = true;
            if cfg.hooks && rng.chance(1, 6) {
                f.preset = true;
                w[OPK_PRESET] = 4;
            }
        }
        "C10" => {
            w[OPK_QUERY] += 20;
            w[OPK_CLONE] += 6;
            w[OPK_DROPWORLD] = 3;
            w[OPK_CREATE_LAZY] = 4;
            w[OPK_CYCLE] += 4;
            f.closure_panic = rng.chance(2, 3);
            f.clone_panic = rng.chance(2, 3);
            f.drop_panic = rng.chance(2, 3);
            f.into_panic = rng.chance(1, 2);
            f.fork = true;
            f.crash = true;
            f.nest = rng.chance(1, 3);
            if f.nest {
                w[OPK_NEST] = 8;
            }
            if cfg.hooks && rng.chance(1, 2) {
                f.preset = true;
                w[OPK_PRESET] = 8;
            }
            mean_len = 14;
            max_len = 40;
        }
        "C11" => {
            w[OPK_NEST] = 60;
            w[OPK_QUERY] += 15;
            w[OPK_CLONE] += 5;
            f.nest = true;
            f.fork = true;
            f.closure_panic = rng.chance(1, 3);
            mean_len = 12;
            max_len = 40;
        }
        "C12" => {
            w[OPK_CREATE_WITHIN] += 20;
            w[OPK_FILL] += 8;
            w[OPK_CREATE] += 10;
            // "each can be refilled to capacity": refills after clone / clone_from too
            if rng.chance(1, 3) {
                f.fork = true;
                w[OPK_CLONE] += 4;
                w[OPK_SWITCH] += 6;
            }
        }
        "C13" => {
            w[OPK_CLONE] += 12;
            w[OPK_SWITCH] += 14;
            w[OPK_MINT] += 6;
            w[OPK_FILL] += 2;
            w[OPK_CLEAR] += 2;
            f.fork = true;
            // forks taken from inside a borrow-mode closure / under a held shared guard
            f.nest = rng.chance(1, 3);
            if f.nest {
                w[OPK_NEST] = 8;
                w[OPK_QUERY] += 8;
            }
        }
        "C17" => {
            w[OPK_CLEAR] = 10;
            w[OPK_CLONE] += 3;
            w[OPK_SWITCH] += 3;
            w[OPK_QUERY] += 10;
            f.fork = true;
            f.closure_panic = rng.chance(1, 4);
            if cfg.hooks && rng.chance(1, 5) {
                f.preset = true;
                w[OPK_PRESET] = 4;
            }
        }
        "C19" | "DIFF" => {
            w[OPK_CLONE] += 2;
            w[OPK_SWITCH] += 2;
            w[OPK_FILL] += 1;
        }
        _ => {}
    }
    // every property's swarm has fault-injecting members: "reachable by any history" includes the
    // states left behind by a caught panic (Clone / Drop panics in clone, clone_from, dynamic
    // destroy); fault-free members stay the large majority
    if matches!(prop, "C01" | "C02" | "C03" | "C06" | "C07" | "C08" | "C09" | "C12" | "C13" | "C17") && rng.chance(1, 5) {
        f.clone_panic = true;
        f.drop_panic = true;
        f.fork = true;
        w[OPK_CLONE] += 2;
        w[OPK_SWITCH] += 3;
        if matches!(prop, "C06" | "C07" | "C02") {
            f.closure_panic = true;
        }
    }
    if f.fork && matches!(prop, "C03" | "C09" | "C13" | "C01") {
        w[OPK_SPAWN] = 2;
    }
    if f.fork {
        w[OPK_CLONE_FROM] = if matches!(prop, "C13" | "C04") { 4 } else if prop == "C12" { 5 } else if f.clone_panic { 3 } else { 1 };
    }
    if !f.fork {
        w[OPK_CLONE] = 0;
        w[OPK_SWITCH] = 0;
    }
    if !f.crash {
        w[OPK_DROPWORLD] = 0;
    }
    if !cfg.events {
        w[OPK_CLEAR] = 0;
    }
    if prop == "DIFF" {
        // the feature- and profile-independent alphabet only
        w[OPK_FORGE] = 0;
        w[OPK_PRESET] = 0;
        w[OPK_CLEAR] = 0;
        w[OPK_NEST] = 0;
        f = Faults { fork: true, ..Faults::default() };
    }
    if rng.chance(1, 8) {
        min_len = 30;
        mean_len = 50;
    }
    // magnitude member (~3 % of runs): populations of hundreds to thousands, long reuse cycles
    if rng.chance(1, 32) && prop != "C11" {
        w[OPK_BULK] = 6;
        w[OPK_BULK_DESTROY] = 6;
        w[OPK_CYCLE] += 4;
        min_len = 4;
        mean_len = 8;
        max_len = 16;
    }
    Profile { w, faults: f, min_len, mean_len, max_len }
}

pub fn gen_sel(rng: &mut Rng, bias: &[(u8, u32)]) -> Sel {
    let w: Vec<u32> = bias.iter().map(|b| b.1).collect();
    let i = rng.weighted(&w);
    Sel { class: bias[i].0, n: rng.next() as u32 }
}

pub fn gen_access(rng: &mut Rng, sh: &WorldShape, near: Option<(u8, u8)>) -> Access {
    let kind = [AccKind::FindBorrow, AccKind::IterBorrow, AccKind::BorrowComp, AccKind::BorrowSlice, AccKind::BorrowSlice, AccKind::BorrowComp, AccKind::CloneWorld, AccKind::FindBorrow, AccKind::IterBorrow, AccKind::BorrowComp, AccKind::BorrowSlice, AccKind::DoubleFind, AccKind::DoubleIter, AccKind::CloneArch, AccKind::CloneFromWorld, AccKind::CloneFromArch][rng.below(16) as usize];
    // bias towards the same archetype / same column as an enclosing access
    let (a, col) = match near {
        Some((a, c)) if rng.chance(2, 3) => (a, if rng.chance(2, 3) { c } else { rng.below(32) as u8 }),
        _ => (rng.below(sh.narch as u64) as u8, rng.below(32) as u8),
    };
    Access { kind, a, col, m: rng.chance(1, 2), ent: rng.below(4) as u32 }
}

pub fn gen_plan(rng: &mut Rng, sh: &WorldShape, mac: QMacro, f: &Faults) -> Vec<VisitAct> {
    let n = match rng.below(4) {
        0 => 0,
        1 => rng.below(3),
        _ => rng.below(14),
    } as usize;
    let mut plan = Vec::with_capacity(n);
    let mode = rng.below(6);
    for k in 0..n {
        let step = match mac {
            QMacro::IterDestroy => match mode {
                0 => Step::ContinueDestroy,
                1 => {
                    if k % 2 == 0 {
                        Step::ContinueDestroy
                    } else {
                        Step::Continue
                    }
                }
                2 => {
                    if k == 0 {
                        Step::ContinueDestroy
                    } else {
                        Step::Continue
                    }
                }
                _ => [Step::Continue, Step::Continue, Step::ContinueDestroy, Step::ContinueDestroy, Step::Break, Step::BreakDestroy][rng.weighted(&[10, 10, 10, 10, 1, 1])],
            },
            QMacro::Iter | QMacro::IterBorrow => {
                if rng.chance(1, 12) {
                    Step::Break
                } else {
                    Step::Continue
                }
            }
            _ => Step::Continue,
        };
        let w = if rng.chance(1, 3) { Some((rng.below(4) as u8, rng.next())) } else { None };
        let inner = match mac {
            QMacro::Iter | QMacro::IterDestroy | QMacro::IterDestroyUnit | QMacro::IterDestroyStep | QMacro::Find => match rng.below(8) {
                0 => Inner::OtherCreate { p: rng.next() },
                1 => Inner::OtherDestroy { n: rng.next() as u32 },
                3 if f.fork => Inner::AltQuery { n: rng.next() as u32, mask: (rng.next() & rng.next()) as u32 },
                2 => Inner::OtherQuery { kind: rng.below(3) as u8, n: rng.next() as u32, mask: (rng.next() & rng.next()) as u32, pk: if f.closure_panic && rng.chance(1, 3) { 1 + rng.below(5) as u32 } else { 0 } },
                _ => Inner::Nothing,
            },
            QMacro::IterBorrow | QMacro::FindBorrow => match rng.below(8) {
                0 | 1 if f.nest => Inner::Acc { acc: gen_access(rng, sh, None) },
                2 => Inner::Peek { h: Sel { class: SEL_LIVE, n: rng.next() as u32 } },
                _ => Inner::Nothing,
            },
        };
        plan.push(VisitAct { step, w, inner, panic: false });
    }
    if f.closure_panic && !plan.is_empty() && rng.chance(1, 3) {
        let k = rng.below(plan.len() as u64) as usize;
        plan[k].panic = true;
    }
    plan
}

pub fn gen_op(rng: &mut Rng, sh: &WorldShape, pr: &Profile) -> Op {
    let k = rng.weighted(&pr.w);
    let a = rng.below(sh.narch as u64) as u8;
    let lvl = if rng.chance(1, 2) { Lvl::World } else { Lvl::Arch };
    let f = &pr.faults;
    match k {
        OPK_CREATE => Op::Create { a, lvl, p: rng.next() },
        OPK_CREATE_WITHIN => Op::CreateWithin { a, lvl, p: rng.next() },
        OPK_CREATE_LAZY => Op::CreateLazy { a, p: rng.next(), fail: f.into_panic && rng.chance(1, 2) },
        OPK_DESTROY => {
            let h = gen_sel(rng, &[(SEL_LIVE, 50), (SEL_DEAD, 12), (SEL_DIRECT, 10), (SEL_DIRECT_FRESH, 12), (SEL_RECENT, 8), (SEL_FOREIGN, if f.fork { 5 } else { 0 }), (SEL_FORGED, if f.forge { 8 } else { 0 }), (SEL_ANY, 3)]);
            let forging = f.forge && rng.chance(1, 6);
            Op::Destroy {
                h,
                typed: rng.chance(1, 2),
                lvl,
                cross: if forging { 1 + rng.below(5) as u8 } else { 0 },
                over: forging && rng.chance(1, 2),
                dp: if f.drop_panic && rng.chance(1, 4) { Some(rng.below(5) as u32) } else { None },
            }
        }
        OPK_WRITE => Op::Write {
            h: gen_sel(rng, &[(SEL_LIVE, 60), (SEL_DEAD, 8), (SEL_DIRECT_FRESH, 14), (SEL_DIRECT, 6), (SEL_FOREIGN, if f.fork { 4 } else { 0 }), (SEL_FORGED, if f.forge { 4 } else { 0 }), (SEL_ANY, 2)]),
            typed: rng.chance(1, 2),
            path: RPATHS[rng.below(RPATHS.len() as u64) as usize],
            col: rng.below(32) as u8,
            p: rng.next(),
        },
        OPK_MINT => Op::Mint {
            h: gen_sel(rng, &[(SEL_LIVE, 60), (SEL_DEAD, 10), (SEL_DIRECT, 8), (SEL_DIRECT_FRESH, 8), (SEL_RECENT, 10), (SEL_FOREIGN, if f.fork { 4 } else { 0 })]),
            typed: rng.chance(1, 2),
            lvl,
        },
        OPK_SCAN => Op::Scan {
            a,
            path: SPATHS[rng.below(SPATHS.len() as u64) as usize],
            w: if rng.chance(1, 2) { Some((rng.below(16) as u32, rng.below(32) as u8, rng.next())) } else { None },
        },
        OPK_QUERY => {
            let mac = [QMacro::Iter, QMacro::IterBorrow, QMacro::IterDestroy, QMacro::Find, QMacro::FindBorrow][rng.weighted(&[10, 10, 12, 5, 5])];
            let key = if matches!(mac, QMacro::Find | QMacro::FindBorrow) {
                Some(gen_sel(rng, &[(SEL_LIVE, 50), (SEL_DEAD, 10), (SEL_DIRECT_FRESH, 15), (SEL_DIRECT, 8), (SEL_FOREIGN, if f.fork { 4 } else { 0 }), (SEL_FORGED, if f.forge { 6 } else { 0 })]))
            } else {
                None
            };
            let plan = gen_plan(rng, sh, mac, f);
            let dp = if f.drop_panic && mac == QMacro::IterDestroy && rng.chance(1, 4) { Some(rng.below(12) as u32) } else { None };
            Op::Query { site: rng.below(sh.nsites.max(1) as u64) as u8, mac, key, plan, dp }
        }
        OPK_CLONE => Op::CloneWorld {
            panic_at: if f.clone_panic && rng.chance(1, 2) { Some(rng.below(64) as u32) } else { None },
            probe: if f.nest && rng.chance(1, 2) { Some((rng.below(64) as u32, gen_access(rng, sh, None))) } else { None },
        },
        OPK_SWITCH => Op::Switch { n: rng.below(4) as u8 },
        OPK_DROPWORLD => Op::DropWorld { panic_at: if f.drop_panic && rng.chance(1, 2) { Some(rng.below(64) as u32) } else { None } },
        OPK_CLEAR => Op::ClearEvents { a: if rng.chance(1, 2) { Some(a) } else { None } },
        OPK_FILL => Op::Fill { a },
        OPK_FORGE => {
            let fz = match rng.below(10) {
                0 | 1 => Forge::Flip { h: gen_sel(rng, &[(SEL_ANY, 1), (SEL_LIVE, 2), (SEL_DEAD, 1)]), mk: flip_mask(rng, 32), mv: flip_mask(rng, 32) },
                2 => Forge::Raw { key: rng.next() as u32, ver: rng.next() as u32 },
                3 => Forge::Raw { key: (rng.below(12) as u32) << 8 | rng.below(256) as u32, ver: 1 + rng.below(4) as u32 },
                4 | 5 | 6 | 7 => Forge::Aimed { a, idb: rng.below(4) as u8, pos: rng.below(7) as u8, n: rng.next() as u32, gen: rng.below(10) as u8 },
                8 => Forge::Alien { n: rng.next() as u32 },
                _ => Forge::Direct { a, idx: rng.below(8) as u8 },
            };
            Op::Forge { f: fz }
        }
        OPK_PRESET => Op::Preset { a, slot_back: rng.below(4) as u32, ver_back: rng.below(4) as u32, bits: gen_bits(rng) },
        OPK_CYCLE => {
            let top = if pr.w[OPK_BULK] > 0 && rng.chance(1, 2) { 600 } else if rng.chance(1, 4) { 40 } else { 6 };
            Op::Cycle { a, n: 1 + rng.below(top) as u32 }
        }
        OPK_NEST => {
            let depth = 1 + rng.weighted(&[2, 10, 4]);
            let mut accs = Vec::new();
            let mut near = None;
            for _ in 0..depth {
                let acc = gen_access(rng, sh, near);
                near = Some((acc.a, acc.col));
                accs.push(acc);
            }
            Op::Nest { accs, at: rng.below(8) as u32 }
        }
        OPK_REPLACE => Op::ReplaceArch { a, cap: None },
        OPK_BULK => Op::Bulk { a, n: [70u32, 130, 257, 300, 520, 1030, 2100, 4200][rng.weighted(&[6, 6, 6, 5, 4, 3, 2, 1])], p: rng.next() },
        OPK_SPAWN => Op::Spawn { c: rng.next() },
        OPK_CLONE_FROM => {
            if rng.chance(1, 3) {
                Op::CloneFrom { n: rng.below(4) as u8 }
            } else {
                let a = if rng.chance(1, 2) { Some(rng.below(sh.narch as u64) as u8) } else { None };
                let panic_at = if f.clone_panic && rng.chance(1, 3) { Some(rng.below(64) as u32) } else { None };
                let dp = if panic_at.is_none() && f.drop_panic && rng.chance(1, 3) { Some(rng.below(64) as u32) } else { None };
                Op::CloneFromX { n: rng.below(4) as u8, a, panic_at, dp }
            }
        }
        OPK_BULK_DESTROY => Op::BulkDestroy { a, stride: 1 + rng.below(9) as u32, phase: rng.below(9) as u32 },
        _ => Op::AuditAll,
    }
}

/// Mostly the real 2^32 boundary; sometimes a smaller power of two (silent truncation).
fn gen_bits(rng: &mut Rng) -> Option<u8> {
    if rng.chance(2, 3) {
        None
    } else {
        Some([8u8, 12, 16, 20, 24, 28, 31][rng.below(7) as usize])
    }
}

fn flip_mask(rng: &mut Rng, bits: u64) -> u32 {
    let mut m = 0u32;
    for _ in 0..rng.below(3) {
        m |= 1 << rng.below(bits);
    }
    m
}

pub fn gen_caps(rng: &mut Rng, sh: &WorldShape) -> Vec<u32> {
    let style = rng.below(6);
    let big = rng.chance(1, 40);
    let salt = rng.below(8) as usize;
    (0..sh.narch)
        .map(|_| match style {
            0 => 0,
            1 => rng.below(4) as u32,
            2 => [0u32, 1, 2, 3, 5, 8][rng.below(6) as usize],
            3 => rng.below(65) as u32,
            4 => {
                if rng.chance(1, 2) {
                    0
                } else {
                    16
                }
            }
            _ => rng.below(12) as u32,
        })
        .map(|c: u32| c)
        .collect::<Vec<u32>>()
        .into_iter()
        .enumerate()
        .map(|(i, c)| if big && i == salt % sh.narch { [100u32, 255, 256, 257, 1000, 1024, 4096, 70000][(c as usize + salt) % 8] } else { c })
        .collect()
}

/// One long history on few worlds (thousands of operations): slot generations climb, the free list
/// is rethreaded by many growth steps between churn phases, the handle book holds thousands of
/// stale handles that are all re-probed. No magnitude members (bulk), rare forks, no world drops.
pub fn gen_long_spec(prop: &str, seed: u64, sh: &WorldShape, cfg: BuildCfg, len: u32) -> RunSpec {
    let mut rng = Rng::new(seed ^ 0x10c6);
    let mut pr = profile_for(prop, &mut rng, cfg);
    pr.w[OPK_BULK] = 0;
    pr.w[OPK_BULK_DESTROY] = 0;
    pr.w[OPK_DROPWORLD] = 0;
    pr.w[OPK_SPAWN] = 0;
    pr.w[OPK_REPLACE] = pr.w[OPK_REPLACE].min(1);
    pr.w[OPK_CLONE] = pr.w[OPK_CLONE].min(1);
    pr.w[OPK_CLONE_FROM] = pr.w[OPK_CLONE_FROM].min(1);
    pr.w[OPK_FILL] = pr.w[OPK_FILL].min(1);
    // phases: the create/destroy balance flips every few hundred operations so that the
    // population repeatedly grows past its previous capacity and shrinks back to nearly nothing
    let caps = gen_caps(&mut rng, sh).into_iter().map(|c| c.min(64)).collect();
    let mut ops = Vec::with_capacity(len as usize);
    let base_c = pr.w[OPK_CREATE].max(10);
    let base_d = pr.w[OPK_DESTROY].max(10);
    let mut i = 0u32;
    while i < len {
        let phase_len = 100 + rng.below(400) as u32;
        let grow = rng.chance(1, 2);
        pr.w[OPK_CREATE] = if grow { base_c * 2 } else { base_c / 2 };
        pr.w[OPK_DESTROY] = if grow { base_d / 2 } else { base_d * 3 };
        for _ in 0..phase_len.min(len - i) {
            ops.push(gen_op(&mut rng, sh, &pr));
        }
        i += phase_len;
    }
    RunSpec { world: sh.name.to_string(), caps, ops, crash_after: None }
}

pub fn gen_spec(prop: &str, seed: u64, sh: &WorldShape, cfg: BuildCfg) -> RunSpec {
    let mut rng = Rng::new(seed);
    let pr = profile_for(prop, &mut rng, cfg);
    let caps = gen_caps(&mut rng, sh);
    // geometric run length
    let mut len = pr.min_len;
    while len < pr.max_len && !rng.chance(1, pr.mean_len as u64) {
        len += 1;
    }
    let mut ops = Vec::with_capacity(len as usize);
    // boundary members start with a preset so that later churn crosses 2^32
    if pr.faults.preset && rng.chance(2, 3) {
        let a = rng.below(sh.narch as u64) as u8;
        ops.push(Op::Preset { a, slot_back: rng.below(3) as u32, ver_back: rng.below(4) as u32, bits: gen_bits(&mut rng) });
        for _ in 0..rng.below(3) {
            ops.push(Op::Create { a, lvl: Lvl::Arch, p: rng.next() });
        }
    }
    for _ in 0..len {
        ops.push(gen_op(&mut rng, sh, &pr));
    }
    RunSpec { world: sh.name.to_string(), caps, ops, crash_after: None }
}
