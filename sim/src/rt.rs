//! Thread-local runtime shared by the instrumented component types and the engine:
//! value registry (exactly-once drop), fault injector for Clone/Drop callbacks, event hash.
//!
//! One run = one thread = one `Rt`. Nothing here reads a clock, an address or a PRNG.

use std::cell::RefCell;

pub const NKINDS: usize = 48;

#[derive(Clone, Copy, PartialEq, Eq, Debug)]
pub enum VState {
    Unused,
    Live,
    Dropped,
}

#[derive(Clone, Debug)]
pub struct Violation {
    pub prop: &'static str,
    pub clause: &'static str,
    pub detail: String,
}

/// Payload type of every panic the simulator raises on purpose.
#[derive(Debug, Clone, Copy, PartialEq, Eq)]
pub enum Injected {
    Closure,
    Clone,
    Drop,
    Into,
}

#[derive(Default, Clone, Copy, Debug)]
pub struct KindCounters {
    pub made: u64,
    pub cloned: u64,
    pub dropped: u64,
}

/// What to do at the k-th Clone::clone callback of the current operation (C11 "clone in
/// progress" cells and F2). The probe itself is executed by the engine through `CLONE_PROBE`.
pub struct Rt {
    // ---- registry ----
    pub vals: Vec<Vec<VState>>, // [kind][id]
    pub counters: [KindCounters; NKINDS],
    pub violations: Vec<Violation>,
    // ---- injection ----
    pub clone_calls: u32,
    pub drop_calls: u32,
    pub inject_clone_at: Option<u32>,
    pub inject_drop_at: Option<u32>,
    pub probe_clone_at: Option<u32>,
    pub fired: Option<Injected>,
    /// ids observed by Clone callbacks of the current operation: (kind, source id, new id)
    pub clone_log: Vec<(u8, u32, u32)>,
    /// ids observed by Drop callbacks of the current operation
    pub drop_log: Vec<(u8, u32)>,
    pub record_logs: bool,
    // ---- event hash ----
    pub hash: u64,
    pub trace: Option<Vec<String>>,
}

impl Rt {
    pub fn new() -> Self {
        Rt {
            vals: (0..NKINDS).map(|_| vec![VState::Unused]).collect(),
            counters: [KindCounters::default(); NKINDS],
            violations: Vec::new(),
            clone_calls: 0,
            drop_calls: 0,
            inject_clone_at: None,
            inject_drop_at: None,
            probe_clone_at: None,
            fired: None,
            clone_log: Vec::new(),
            drop_log: Vec::new(),
            record_logs: false,
            hash: 0xcbf29ce484222325,
            trace: None,
        }
    }
}

thread_local! {
    static RT: RefCell<Rt> = RefCell::new(Rt::new());
    /// Set by the engine while a world clone is in flight: called from inside Clone::clone.
    static CLONE_PROBE: RefCell<Option<Box<dyn FnMut(u8, u32)>>> = const { RefCell::new(None) };
    /// Worlds cloned from inside an in-flight runtime-borrowed access, with the model at that instant
    /// and the Clone log of that clone; adopted as replicas by the engine when the operation ends.
    static FORKS: RefCell<Vec<(Box<dyn std::any::Any>, Box<dyn std::any::Any>, Vec<(u8, u32, u32)>)>> = const { RefCell::new(Vec::new()) };
}

pub fn stash_fork(w: Box<dyn std::any::Any>, m: Box<dyn std::any::Any>, log: Vec<(u8, u32, u32)>) {
    FORKS.with(|f| f.borrow_mut().push((w, m, log)));
}

pub fn forks_stashed() -> usize {
    FORKS.with(|f| f.borrow().len())
}

pub fn take_forks() -> Vec<(Box<dyn std::any::Any>, Box<dyn std::any::Any>, Vec<(u8, u32, u32)>)> {
    FORKS.with(|f| std::mem::take(&mut *f.borrow_mut()))
}

/// Records Clone callbacks for the duration of one nested clone, whatever the armed state is.
pub fn log_scope_begin() -> (bool, usize) {
    with(|r| {
        let prev = r.record_logs;
        r.record_logs = true;
        (prev, r.clone_log.len())
    })
}

pub fn log_scope_end(tok: (bool, usize)) -> Vec<(u8, u32, u32)> {
    with(|r| {
        r.record_logs = tok.0;
        r.clone_log.split_off(tok.1.min(r.clone_log.len()))
    })
}

#[inline]
pub fn with<R>(f: impl FnOnce(&mut Rt) -> R) -> R {
    RT.with(|r| f(&mut r.borrow_mut()))
}

pub fn reset(trace: bool) {
    drop(take_forks());
    with(|r| {
        *r = Rt::new();
        if trace {
            r.trace = Some(Vec::new());
        }
    });
    CLONE_PROBE.with(|p| *p.borrow_mut() = None);
    // worlds left over from an aborted run are dropped while the registry is already reset: forget
    // nothing, but do it before the reset so their destructors meet the registry they belong to
}

pub fn set_clone_probe(p: Option<Box<dyn FnMut(u8, u32)>>) {
    CLONE_PROBE.with(|c| *c.borrow_mut() = p);
}

#[inline]
pub fn h(words: &[u64]) {
    with(|r| {
        let mut x = r.hash;
        for w in words {
            for b in w.to_le_bytes() {
                x ^= b as u64;
                x = x.wrapping_mul(0x100000001b3);
            }
        }
        r.hash = x;
    });
}

pub fn tracing() -> bool {
    with(|r| r.trace.is_some())
}

pub fn trace(s: impl FnOnce() -> String) {
    let on = with(|r| r.trace.is_some());
    if on {
        let line = s();
        with(|r| r.trace.as_mut().unwrap().push(line));
    }
}

pub fn violate(prop: &'static str, clause: &'static str, detail: String) {
    with(|r| {
        if r.violations.len() < 16 {
            r.violations.push(Violation { prop, clause, detail });
        }
    });
}

pub fn has_violation() -> bool {
    with(|r| !r.violations.is_empty())
}

/// Called by every tracked constructor. Returns the fresh id (ids start at 1).
pub fn on_make(kind: u8, has_id: bool) -> u32 {
    with(|r| {
        r.counters[kind as usize].made += 1;
        if has_id {
            let v = &mut r.vals[kind as usize];
            v.push(VState::Live);
            (v.len() - 1) as u32
        } else {
            0
        }
    })
}

/// Called at the start of every tracked `Clone::clone`. May unwind (F2) or run the probe.
pub fn on_clone_enter(kind: u8, id: u32) {
    let (fire, probe) = with(|r| {
        let k = r.clone_calls;
        r.clone_calls += 1;
        r.counters[kind as usize].cloned += 1;
        (
            r.inject_clone_at == Some(k) && r.fired.is_none(),
            r.probe_clone_at == Some(k),
        )
    });
    if probe {
        // Take the probe out while it runs so that nested clones cannot re-enter it.
        let p = CLONE_PROBE.with(|c| c.borrow_mut().take());
        if let Some(mut p) = p {
            p(kind, id);
            CLONE_PROBE.with(|c| *c.borrow_mut() = Some(p));
        }
    }
    if fire && !std::thread::panicking() {
        with(|r| r.fired = Some(Injected::Clone));
        std::panic::panic_any(Injected::Clone);
    }
}

pub fn on_clone_done(kind: u8, src: u32, new: u32) {
    with(|r| {
        if r.record_logs {
            r.clone_log.push((kind, src, new));
        }
    });
}

/// Called at the start of every tracked `Drop::drop`. Marks the value dropped first (it is
/// dropped as far as the property is concerned once `drop` was entered), then may unwind (F3).
pub fn on_drop(kind: u8, id: u32, has_id: bool) {
    let fire = with(|r| {
        let c = &mut r.counters[kind as usize];
        c.dropped += 1;
        if has_id {
            let v = &mut r.vals[kind as usize];
            match v.get(id as usize).copied() {
                Some(VState::Live) => v[id as usize] = VState::Dropped,
                Some(VState::Dropped) => {
                    if r.violations.len() < 16 {
                        r.violations.push(Violation {
                            prop: "C04",
                            clause: "double-drop",
                            detail: format!("value kind={} id={} dropped twice", kind, id),
                        });
                    }
                }
                _ => {
                    if r.violations.len() < 16 {
                        r.violations.push(Violation {
                            prop: "C04",
                            clause: "garbage-drop",
                            detail: format!("drop of a value that was never constructed: kind={} id={}", kind, id),
                        });
                    }
                }
            }
        } else if c.dropped > c.made + c.cloned_made() {
            if r.violations.len() < 16 {
                r.violations.push(Violation {
                    prop: "C04",
                    clause: "double-drop",
                    detail: format!("kind={} dropped {} times but only {} constructed", kind, c.dropped, c.made),
                });
            }
        }
        if r.record_logs {
            r.drop_log.push((kind, id));
        }
        let k = r.drop_calls;
        r.drop_calls += 1;
        r.inject_drop_at == Some(k) && r.fired.is_none()
    });
    if fire && !std::thread::panicking() {
        with(|r| r.fired = Some(Injected::Drop));
        std::panic::panic_any(Injected::Drop);
    }
}

impl KindCounters {
    /// `made` already includes values produced by clone (clone calls `on_make`).
    #[inline]
    fn cloned_made(&self) -> u64 {
        0
    }
}

pub fn state(kind: u8, id: u32) -> VState {
    with(|r| r.vals[kind as usize].get(id as usize).copied().unwrap_or(VState::Unused))
}

/// Arms the Clone/Drop injector for one top-level operation and clears per-op logs.
pub fn arm(clone_at: Option<u32>, drop_at: Option<u32>, probe_clone_at: Option<u32>, record: bool) {
    with(|r| {
        r.clone_calls = 0;
        r.drop_calls = 0;
        r.inject_clone_at = clone_at;
        r.inject_drop_at = drop_at;
        r.probe_clone_at = probe_clone_at;
        r.fired = None;
        r.clone_log.clear();
        r.drop_log.clear();
        r.record_logs = record;
    });
}

pub fn disarm() {
    with(|r| {
        r.inject_clone_at = None;
        r.inject_drop_at = None;
        r.probe_clone_at = None;
        r.record_logs = false;
    });
}
