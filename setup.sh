#!/bin/sh
# Offline build of the simulator in the configurations the quick checks use.
set -e
cd "$(dirname "$0")"
exec ./check --setup
